package mcp

// Bounded stand-in (NOT a proof; listed under `bounded` in the evidence): tools/list advertises exactly the tools a
// call would be allowed for. Bound: the complete table {role spellings: read, operate, admin, " Admin ", "", "root"}
// x MutationsEnabled x RuntimeControlEnabled x {no principal, principal "ops"} = 48 configurations, and for each the
// 31 known tool names plus one unknown name. The deductive part (C20 suite) proves that toolAccessError depends on
// Role and Principal only through effRole(lower(trim(Role))) and trim(Principal) != "", and that every listed tool
// passes the gate; this run adds the converse direction on the finite table, on the real code.

import (
	"fmt"
	"testing"
)

func TestGovcBoundedListAgreement(t *testing.T) {
	names := []string{"config_parse", "config_validate", "config_compile", "config_fmt_preview", "config_diff", "admin_health",
		"management_model", "backlog_top_queued", "backlog_oldest_queued", "backlog_aging_summary", "backlog_trends",
		"messages_list", "attempts_list", "dlq_list", "instance_status", "instance_logs_tail",
		"dlq_requeue", "dlq_delete", "messages_cancel", "messages_requeue", "messages_resume", "messages_publish",
		"messages_cancel_by_filter", "messages_requeue_by_filter", "messages_resume_by_filter",
		"config_apply", "management_endpoint_upsert", "management_endpoint_delete", "instance_start", "instance_stop", "instance_reload",
		"no_such_tool"}
	n := 0
	for _, role := range []string{"read", "operate", "admin", " Admin ", "", "root"} {
		for _, mut := range []bool{false, true} {
			for _, rt := range []bool{false, true} {
				for _, principal := range []string{"", "ops"} {
					s := &Server{Role: Role(role), MutationsEnabled: mut, RuntimeControlEnabled: rt, Principal: principal}
					listed := map[string]int{}
					for _, d := range s.toolDescriptors() {
						listed[d.Name]++
					}
					for _, name := range names {
						allowed := s.toolAccessError(name) == nil
						if allowed != (listed[name] == 1) {
							t.Errorf("role=%q mutations=%v runtime=%v principal=%q tool=%s: allowed=%v listed=%d", role, mut, rt, principal, name, allowed, listed[name])
						}
						n++
					}
					for name := range listed {
						known := false
						for _, k := range names {
							if k == name {
								known = true
							}
						}
						if !known {
							t.Errorf("role=%q: listed tool %q is not in the table of known tools", role, name)
						}
					}
				}
			}
		}
	}
	fmt.Printf("GOVC-BOUNDED cases=%d\n", n)
}
