package main

import (
	"fmt"
	"go/types"
	"strings"

	"golang.org/x/tools/go/ssa"
)

type VKind int

const (
	VScalar VKind = iota
	VStruct
	VSlice // F = [arr, off, len]
	VFloat // F = [nan, val]
	VTuple
	VPath
	VClosure
	VIter
	VUnit
)

type Val struct {
	K     VKind
	T     *Term
	F     []*Val
	Path  *Path
	Clo   *Closure
	Iter  *IterState
	Typ   types.Type
	SetOf Sort // spec sets: element sort (T is an (Array elem Bool))
}

type Closure struct {
	Fn       *ssa.Function
	Bindings []*Val
}

type IterState struct {
	Instr *ssa.Range
}

// Path is an executor-level address.
type Path struct {
	Cell   *ssa.Alloc  // local cell root
	Global *ssa.Global // package-level variable root
	Ref    *Term       // heap object root (pointer value)
	RefT   types.Type  // pointee type of Ref
	Arr    *Term       // slice element root: backing array ref
	Idx    *Term       // absolute index in backing array
	ElemT  types.Type  // element type
	Sel    []int       // struct field selectors below the root
	T      types.Type  // type of the addressed location
	Opaque bool        // element of an unmodelled array
}

func scalar(t *Term, typ types.Type) *Val { return &Val{K: VScalar, T: t, Typ: typ} }

var unitVal = &Val{K: VUnit}

// ---- type classification ----

type TKind int

const (
	TScalar TKind = iota
	TStruct
	TSlice
	TFloat
	TTuple
	TUnit
)

func isNamed(t types.Type, pkg, name string) bool {
	if a, ok := t.(*types.Alias); ok {
		t = types.Unalias(a)
	}
	n, ok := t.(*types.Named)
	if !ok {
		return false
	}
	o := n.Obj()
	return o.Name() == name && o.Pkg() != nil && o.Pkg().Path() == pkg
}

func isSyncType(t types.Type) bool {
	if n, ok := types.Unalias(t).(*types.Named); ok && n.Obj().Pkg() != nil {
		p := n.Obj().Pkg().Path()
		return p == "sync" || p == "sync/atomic"
	}
	return false
}

// opaqueStructs are struct types modelled as a single opaque Any scalar.
func isOpaqueNamed(t types.Type) bool {
	n, ok := types.Unalias(t).(*types.Named)
	if !ok || n.Obj().Pkg() == nil {
		return false
	}
	p := n.Obj().Pkg().Path()
	if strings.HasPrefix(p, modPath) {
		return false
	}
	switch p + "." + n.Obj().Name() {
	case "time.Time":
		return false
	}
	// any struct from outside the module is opaque unless listed transparent
	if _, isStruct := n.Underlying().(*types.Struct); isStruct {
		switch p + "." + n.Obj().Name() {
		case "net/http.Request", "net/url.URL", "net/http.Response", "net/http.Client":
			return false
		case "database/sql.NullTime", "database/sql.NullString", "database/sql.NullInt64", "database/sql.NullBool":
			// plain data carriers filled by Scan: their fields are ordinary values
			return false
		}
		return true
	}
	return false
}

func classify(t types.Type) (TKind, Sort) {
	t = types.Unalias(t)
	if isNamed(t, "time", "Time") {
		return TScalar, SInt
	}
	if isSyncType(t) {
		return TUnit, ""
	}
	if isOpaqueNamed(t) {
		return TScalar, SAny
	}
	switch u := t.Underlying().(type) {
	case *types.Basic:
		switch {
		case u.Info()&types.IsBoolean != 0:
			return TScalar, SBool
		case u.Info()&types.IsInteger != 0:
			return TScalar, SInt
		case u.Info()&types.IsFloat != 0:
			return TFloat, ""
		case u.Info()&types.IsString != 0:
			return TScalar, SStr
		case u.Kind() == types.UnsafePointer:
			return TScalar, SAny
		case u.Kind() == types.UntypedNil:
			return TScalar, SAny
		}
		return TScalar, SAny
	case *types.Struct:
		return TStruct, ""
	case *types.Pointer:
		return TScalar, SInt
	case *types.Map:
		return TScalar, SInt
	case *types.Slice:
		if isByte(u.Elem()) {
			return TScalar, SStr
		}
		return TSlice, ""
	case *types.Array:
		if isByte(u.Elem()) {
			return TScalar, SStr
		}
		return TScalar, SAny
	case *types.Interface:
		if isErrorType(t) {
			return TScalar, SErr
		}
		return TScalar, SAny
	case *types.Signature, *types.Chan:
		return TScalar, SAny
	case *types.Tuple:
		if u.Len() == 0 {
			return TUnit, ""
		}
		return TTuple, ""
	}
	return TScalar, SAny
}

func isByte(t types.Type) bool {
	b, ok := t.Underlying().(*types.Basic)
	return ok && (b.Kind() == types.Uint8 || b.Kind() == types.Byte)
}

var errorIface = types.Universe.Lookup("error").Type()

func isErrorType(t types.Type) bool {
	return types.Identical(types.Unalias(t), errorIface)
}

// Leaf is one scalar component of a flattened type.
type Leaf struct {
	Path string
	S    Sort
	Typ  types.Type
}

func leavesOf(t types.Type) []Leaf {
	var out []Leaf
	collectLeaves(t, "", &out, 0)
	return out
}

func collectLeaves(t types.Type, prefix string, out *[]Leaf, depth int) {
	if depth > 8 {
		*out = append(*out, Leaf{prefix, SAny, t})
		return
	}
	k, s := classify(t)
	switch k {
	case TScalar:
		*out = append(*out, Leaf{prefix, s, t})
	case TFloat:
		*out = append(*out, Leaf{prefix + "#nan", SBool, nil}, Leaf{prefix + "#val", SReal, nil})
	case TSlice:
		*out = append(*out, Leaf{prefix + "#arr", SInt, nil}, Leaf{prefix + "#off", SInt, nil}, Leaf{prefix + "#len", SInt, nil})
	case TStruct:
		st := t.Underlying().(*types.Struct)
		for i := 0; i < st.NumFields(); i++ {
			f := st.Field(i)
			p := f.Name()
			if prefix != "" {
				p = prefix + "." + f.Name()
			}
			collectLeaves(f.Type(), p, out, depth+1)
		}
	case TTuple:
		tp := t.(*types.Tuple)
		for i := 0; i < tp.Len(); i++ {
			collectLeaves(tp.At(i).Type(), fmt.Sprintf("%s$%d", prefix, i), out, depth+1)
		}
	case TUnit:
	}
}

// buildVal constructs a Val of type t from a leaf-term supplier.
func buildVal(t types.Type, prefix string, get func(path string, s Sort, typ types.Type) *Term) *Val {
	k, s := classify(t)
	switch k {
	case TScalar:
		return &Val{K: VScalar, T: get(prefix, s, t), Typ: t}
	case TFloat:
		return &Val{K: VFloat, F: []*Val{scalar(get(prefix+"#nan", SBool, nil), nil), scalar(get(prefix+"#val", SReal, nil), nil)}, Typ: t}
	case TSlice:
		// every slice value in the model has offset 0 (re-slicing from a non-zero index copies, see execSlice)
		return &Val{K: VSlice, F: []*Val{scalar(get(prefix+"#arr", SInt, nil), nil), scalar(intLit(0), nil), scalar(get(prefix+"#len", SInt, nil), nil)}, Typ: t}
	case TStruct:
		st := t.Underlying().(*types.Struct)
		v := &Val{K: VStruct, Typ: t}
		for i := 0; i < st.NumFields(); i++ {
			f := st.Field(i)
			p := f.Name()
			if prefix != "" {
				p = prefix + "." + f.Name()
			}
			v.F = append(v.F, buildVal(f.Type(), p, get))
		}
		return v
	case TTuple:
		tp := t.(*types.Tuple)
		v := &Val{K: VTuple, Typ: t}
		for i := 0; i < tp.Len(); i++ {
			v.F = append(v.F, buildVal(tp.At(i).Type(), fmt.Sprintf("%s$%d", prefix, i), get))
		}
		return v
	}
	return unitVal
}

// walkLeaves visits the scalar terms of v in the same order/paths as buildVal.
func walkLeaves(v *Val, t types.Type, prefix string, f func(path string, term *Term)) {
	switch v.K {
	case VScalar:
		f(prefix, v.T)
	case VFloat:
		f(prefix+"#nan", v.F[0].T)
		f(prefix+"#val", v.F[1].T)
	case VSlice:
		f(prefix+"#arr", v.F[0].T)
		f(prefix+"#off", v.F[1].T)
		f(prefix+"#len", v.F[2].T)
	case VStruct:
		st := t.Underlying().(*types.Struct)
		for i := 0; i < st.NumFields(); i++ {
			fl := st.Field(i)
			p := fl.Name()
			if prefix != "" {
				p = prefix + "." + fl.Name()
			}
			walkLeaves(v.F[i], fl.Type(), p, f)
		}
	case VTuple:
		tp := t.(*types.Tuple)
		for i := 0; i < tp.Len(); i++ {
			walkLeaves(v.F[i], tp.At(i).Type(), fmt.Sprintf("%s$%d", prefix, i), f)
		}
	case VUnit:
	default:
		panic(fmt.Sprintf("walkLeaves: non-SMT value kind %d", v.K))
	}
}

func zeroTerm(s Sort) *Term {
	switch s {
	case SBool:
		return tFalse
	case SInt:
		return intLit(0)
	case SReal:
		return realLitStr("0")
	case SStr:
		return strEmpty
	case SErr:
		return errNil
	case SAny:
		return anyNil
	}
	if _, v, ok := arrParts(s); ok {
		return constArr(s, zeroTerm(v))
	}
	panic("zeroTerm: " + string(s))
}

var (
	strEmpty = &Term{Op: "str.empty", S: SStr}
	errNil   = &Term{Op: "err.nil", S: SErr}
	anyNil   = &Term{Op: "any.nil", S: SAny}
)

func zeroVal(t types.Type) *Val {
	return buildVal(t, "", func(_ string, s Sort, _ types.Type) *Term { return zeroTerm(s) })
}

// mapVal applies f to each scalar term of two same-shaped values.
func zipVal(a, b *Val, f func(x, y *Term) *Term) *Val {
	switch a.K {
	case VScalar:
		if b.K != VScalar {
			panic("zipVal: shape mismatch")
		}
		return &Val{K: VScalar, T: f(a.T, b.T), Typ: a.Typ}
	case VUnit:
		return a
	case VStruct, VTuple, VSlice, VFloat:
		if b.K != a.K || len(a.F) != len(b.F) {
			panic("zipVal: shape mismatch")
		}
		out := &Val{K: a.K, Typ: a.Typ}
		for i := range a.F {
			out.F = append(out.F, zipVal(a.F[i], b.F[i], f))
		}
		return out
	}
	panic(fmt.Sprintf("zipVal: non-SMT value kind %d", a.K))
}

func valEq(a, b *Val) *Term {
	var cs []*Term
	var rec func(x, y *Val)
	rec = func(x, y *Val) {
		switch x.K {
		case VScalar:
			cs = append(cs, tEq(x.T, y.T))
		case VFloat:
			// Go ==: false if either NaN
			cs = append(cs, tNot(x.F[0].T), tNot(y.F[0].T), tEq(x.F[1].T, y.F[1].T))
		case VUnit:
		default:
			for i := range x.F {
				rec(x.F[i], y.F[i])
			}
		}
	}
	rec(a, b)
	return tAnd(cs...)
}

func isSMTVal(v *Val) bool {
	switch v.K {
	case VScalar, VUnit:
		return true
	case VStruct, VTuple, VSlice, VFloat:
		for _, f := range v.F {
			if !isSMTVal(f) {
				return false
			}
		}
		return true
	}
	return false
}

// typeKey is a stable, SMT-safe name for a Go type (used in heap array names).
func typeKey(t types.Type) string {
	t = types.Unalias(t)
	s := types.TypeString(t, func(p *types.Package) string {
		if strings.HasPrefix(p.Path(), modPath+"/internal/") {
			return p.Name()
		}
		return p.Path()
	})
	return sanitize(s)
}

func sortOfKey(t types.Type) (Sort, error) {
	k, s := classify(t)
	if k != TScalar {
		return "", fmt.Errorf("unsupported map key type %s", t)
	}
	return s, nil
}
