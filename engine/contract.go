package main

import (
	"bufio"
	"fmt"
	"os"
	"path/filepath"
	"regexp"
	"strconv"
	"strings"
)

type Clause struct {
	Label string
	Assumed bool // `assumes`: taken on trust (used at call sites, not an obligation of the function); listed in the trusted base
	E     *Expr
	Src   string
	Where string // file:line
	Tags  []string
}

type LoopGhost struct {
	Name, Type string
	Init, Step *Expr
}

type LoopSpec struct {
	Invs      []Clause
	Decreases *Expr
	Ghosts    []LoopGhost
}

type CallReq struct {
	Callee string
	Clause
}

type FuncContract struct {
	Kind     string // func extern iface fieldfunc
	Key      string
	Pkg      string // package short name for name resolution
	Params   []string
	Results  []string
	Requires []Clause
	Ensures  []Clause
	Modifies []*Expr
	ModAll   bool // modifies *
	Loops    map[int]*LoopSpec
	Calls    []CallReq
	Strings  string
	Overflow bool
	Encodable bool // `check encodable`: every value boxed into an interface is JSON-encodable (static type) and every boxed float is a number
	Monitor  string
	Cut      string // "select": paths reaching unmodelled concurrency instrs end silently
	Trusted  bool   // contract assumed, body not verified (listed in evidence)
	NoPanic  bool   // generate nopanic obligations (default true for func)
	Pure     bool
	NoFrame  bool
	Where    string
	Assumes  []Clause // extern: assume-only facts (same as ensures)
	Old      []OldDecl
	Sets     []OldDecl // ghost assignments at exit: NAME := expr over the final state
	Labels   []LabelDecl
	Preserves []*Expr // with `modifies *`: these locations keep their values
	Stable    []*Expr // caller-owned locations: not changed by other threads while this function waits for a lock
	Abstract  []string // `abstract maps(T)`: contents of maps of type T are not modelled in this function (every write havocs them)
}

// LabelDecl names the state right after the (first) call of Callee: `label P after call <callee>`.
type LabelDecl struct {
	Name, Callee string
}

type OldDecl struct {
	Name string
	E    *Expr
}

type SpecFunc struct {
	Name   string
	Params []BVar
	Result string // "bool" for pred
	Body   *Expr
	Pkg    string
	Where  string
}

type UFunc struct {
	Name   string
	Params []BVar
	Result string
	Pkg    string
}

type Monitor struct {
	Pkg, Type string
	Lock      string
	Inv       []Clause
	Guards    []string
	Where     string
}

type Contracts struct {
	Funcs    map[string]*FuncContract
	Specs    map[string]*SpecFunc
	UFuncs   map[string]*UFunc
	Axioms   []AxiomDecl
	Lemmas   []AxiomDecl
	Ghosts   map[string]string // name -> type text
	Sets     map[string][]string
	Monitors map[string]*Monitor // by pkg.Type
	Files    []string
}

type AxiomDecl struct {
	Clause
	Pkg string
}

func newContracts() *Contracts {
	return &Contracts{Funcs: map[string]*FuncContract{}, Specs: map[string]*SpecFunc{}, UFuncs: map[string]*UFunc{},
		Ghosts: map[string]string{}, Sets: map[string][]string{}, Monitors: map[string]*Monitor{}}
}

var labelRe = regexp.MustCompile(`^\[([A-Za-z0-9_:,.\-]+)\]\s*`)
var headerSigRe = regexp.MustCompile(`^(\S+?)\((.*?)\)(?:\s*\((.*?)\))?\s*$`)

// loadContractFile parses a contract (.go with //@ lines) or spec (.spec raw lines) file.
func (C *Contracts) loadContractFile(path string, defaultPkg string) error {
	f, err := os.Open(path)
	if err != nil {
		return err
	}
	defer f.Close()
	C.Files = append(C.Files, path)
	isGo := strings.HasSuffix(path, ".go")
	sc := bufio.NewScanner(f)
	sc.Buffer(make([]byte, 1<<20), 1<<20)
	type logical struct {
		text string
		line int
	}
	var lines []logical
	ln := 0
	for sc.Scan() {
		ln++
		raw := sc.Text()
		var body string
		if isGo {
			t := strings.TrimLeft(raw, " \t")
			if !strings.HasPrefix(t, "//@") {
				continue
			}
			body = strings.TrimPrefix(t, "//@")
			if strings.HasPrefix(body, " ") {
				body = body[1:]
			}
		} else {
			if i := strings.Index(raw, " #"); i >= 0 && !strings.Contains(raw[:i], "\"") {
				raw = raw[:i]
			}
			if strings.HasPrefix(strings.TrimSpace(raw), "#") {
				continue
			}
			body = raw
		}
		if strings.TrimSpace(body) == "" {
			continue
		}
		// continuation: starts with >= 3 spaces (relative to block clause indentation of <=2)
		indent := len(body) - len(strings.TrimLeft(body, " "))
		if indent >= 4 && len(lines) > 0 {
			lines[len(lines)-1].text += " " + strings.TrimSpace(body)
			continue
		}
		lines = append(lines, logical{strings.TrimSpace(body), ln})
	}
	pkg := defaultPkg
	var cur *FuncContract
	var curMon *Monitor
	inSpec := false
	where := func(l int) string { return fmt.Sprintf("%s:%d", filepath.Base(path), l) }
	parseClause := func(rest string, l int) (Clause, error) {
		c := Clause{Where: where(l)}
		if m := labelRe.FindStringSubmatch(rest); m != nil {
			c.Label = m[1]
			rest = rest[len(m[0]):]
		}
		e, err := parseExpr(rest)
		if err != nil {
			return c, fmt.Errorf("%s: %v", where(l), err)
		}
		c.E = e
		c.Src = rest
		return c, nil
	}
	for _, L := range lines {
		word, rest := splitWord(L.text)
		switch word {
		case "package":
			pkg = rest
			cur, curMon, inSpec = nil, nil, false
			continue
		case "func", "extern", "iface", "fieldfunc":
			if word == "func" && inSpec && strings.Contains(rest, ":=") {
				if err := C.parseSpecDecl(word, rest, pkg, where(L.line)); err != nil {
					return err
				}
				continue
			}
			fc := &FuncContract{Kind: word, Pkg: pkg, Loops: map[int]*LoopSpec{}, Where: where(L.line), NoPanic: word == "func"}
			fc.Key, fc.Params, fc.Results = parseFuncHeader(rest, word != "func")
			if word == "func" && !strings.Contains(fc.Key, ".") {
				fc.Key = pkg + "." + fc.Key
			} else if word == "func" && strings.HasPrefix(fc.Key, "(") {
				fc.Key = pkg + "." + fc.Key
			}
			if prev, dup := C.Funcs[fc.Key]; dup {
				// a contract on the function itself (proved when its package is loaded) takes precedence over an
				// assumed `extern` contract for the same function from a spec file
				switch {
				case prev.Kind == "extern" && word == "func":
					// replace below
				case prev.Kind == "extern" && word == "extern" && prev.Pkg == "*" && pkg != "*":
					// a package's own reading of an external function replaces the shared one from /verif/specs
				case prev.Kind == "func" && word == "extern":
					cur, curMon, inSpec = &FuncContract{Kind: word, Pkg: pkg, Loops: map[int]*LoopSpec{}, Key: fc.Key}, nil, false // parsed and dropped
					continue
				case word == "func" && prev.Kind == "func" && prev.Pkg != pkg && (strings.HasPrefix(fc.Key, pkg+".") || strings.HasPrefix(fc.Key, prev.Pkg+".")):
					// a function may carry a (trusted) contract in a client package's file and its own (proved) contract in
					// its own package's file: when both files are loaded the owner's contract is used
					if strings.HasPrefix(fc.Key, prev.Pkg+".") {
						cur, curMon, inSpec = &FuncContract{Kind: word, Pkg: pkg, Loops: map[int]*LoopSpec{}, Key: fc.Key}, nil, false // parsed and dropped
						continue
					}
				default:
					return fmt.Errorf("%s: duplicate contract for %s", where(L.line), fc.Key)
				}
			}
			C.Funcs[fc.Key] = fc
			cur, curMon, inSpec = fc, nil, false
			continue
		case "type":
			// type T monitor <lock>
			parts := strings.Fields(rest)
			if len(parts) < 3 || parts[1] != "monitor" {
				return fmt.Errorf("%s: expected `type T monitor <lockfield>`", where(L.line))
			}
			curMon = &Monitor{Pkg: pkg, Type: parts[0], Lock: parts[2], Where: where(L.line)}
			C.Monitors[pkg+"."+parts[0]] = curMon
			cur, inSpec = nil, false
			continue
		case "spec":
			cur, curMon, inSpec = nil, nil, true
			continue
		}
		if curMon != nil {
			switch word {
			case "inv":
				c, err := parseClause(rest, L.line)
				if err != nil {
					return err
				}
				curMon.Inv = append(curMon.Inv, c)
			case "guards":
				curMon.Guards = append(curMon.Guards, splitList(rest)...)
			default:
				return fmt.Errorf("%s: unknown monitor clause %q", where(L.line), word)
			}
			continue
		}
		if inSpec {
			if err := C.parseSpecDecl(word, rest, pkg, where(L.line)); err != nil {
				return err
			}
			continue
		}
		if cur == nil {
			return fmt.Errorf("%s: clause %q outside a block", where(L.line), word)
		}
		switch word {
		case "requires":
			c, err := parseClause(rest, L.line)
			if err != nil {
				return err
			}
			cur.Requires = append(cur.Requires, c)
		case "ensures", "assume", "assumes":
			c, err := parseClause(rest, L.line)
			if err != nil {
				return err
			}
			c.Assumed = word == "assumes"
			cur.Ensures = append(cur.Ensures, c)
		case "modifies":
			if strings.TrimSpace(rest) == "*" {
				cur.ModAll = true
				break
			}
			for _, m := range splitTop(rest) {
				e, err := parseLocExpr(m)
				if err != nil {
					return fmt.Errorf("%s: %v", where(L.line), err)
				}
				cur.Modifies = append(cur.Modifies, e)
			}
		case "preserves":
			for _, m := range splitTop(rest) {
				e, err := parseLocExpr(m)
				if err != nil {
					return fmt.Errorf("%s: %v", where(L.line), err)
				}
				cur.Preserves = append(cur.Preserves, e)
			}
		case "abstract":
			for _, m := range splitTop(rest) {
				m = strings.TrimSpace(m)
				if !strings.HasPrefix(m, "maps(") || !strings.HasSuffix(m, ")") {
					return fmt.Errorf("%s: abstract maps(T)", where(L.line))
				}
				cur.Abstract = append(cur.Abstract, m[5:len(m)-1])
			}
		case "stable":
			for _, m := range splitTop(rest) {
				e, err := parseLocExpr(m)
				if err != nil {
					return fmt.Errorf("%s: %v", where(L.line), err)
				}
				cur.Stable = append(cur.Stable, e)
			}
		case "old":
			// old NAME := expr  (named entry-state snapshot value usable in ensures / invariants)
			i := strings.Index(rest, ":=")
			if i < 0 {
				return fmt.Errorf("%s: old NAME := expr", where(L.line))
			}
			e, err := parseExpr(strings.TrimSpace(rest[i+2:]))
			if err != nil {
				return fmt.Errorf("%s: %v", where(L.line), err)
			}
			cur.Old = append(cur.Old, OldDecl{strings.TrimSpace(rest[:i]), e})
		case "label":
			parts := strings.Fields(rest)
			if len(parts) != 4 || parts[1] != "after" || parts[2] != "call" {
				return fmt.Errorf("%s: label NAME after call <callee>", where(L.line))
			}
			cur.Labels = append(cur.Labels, LabelDecl{parts[0], parts[3]})
		case "sets":
			i := strings.Index(rest, ":=")
			if i < 0 {
				return fmt.Errorf("%s: sets NAME := expr", where(L.line))
			}
			e, err := parseExpr(strings.TrimSpace(rest[i+2:]))
			if err != nil {
				return fmt.Errorf("%s: %v", where(L.line), err)
			}
			cur.Sets = append(cur.Sets, OldDecl{strings.TrimSpace(rest[:i]), e})
		case "loop":
			nstr, r2 := splitWord(rest)
			n, err := strconv.Atoi(nstr)
			if err != nil {
				return fmt.Errorf("%s: loop ordinal expected", where(L.line))
			}
			ls := cur.Loops[n]
			if ls == nil {
				ls = &LoopSpec{}
				cur.Loops[n] = ls
			}
			w2, r3 := splitWord(r2)
			switch w2 {
			case "invariant":
				c, err := parseClause(r3, L.line)
				if err != nil {
					return err
				}
				ls.Invs = append(ls.Invs, c)
			case "decreases":
				e, err := parseExpr(r3)
				if err != nil {
					return fmt.Errorf("%s: %v", where(L.line), err)
				}
				ls.Decreases = e
			case "ghost":
				// ghost NAME TYPE := init step expr
				i := strings.Index(r3, ":=")
				j := strings.Index(r3, " step ")
				if i < 0 || j < i {
					return fmt.Errorf("%s: loop N ghost NAME TYPE := init step expr", where(L.line))
				}
				nm, ty := splitWord(strings.TrimSpace(r3[:i]))
				ie, err := parseExpr(strings.TrimSpace(r3[i+2 : j]))
				if err != nil {
					return fmt.Errorf("%s: %v", where(L.line), err)
				}
				se, err := parseExpr(strings.TrimSpace(r3[j+6:]))
				if err != nil {
					return fmt.Errorf("%s: %v", where(L.line), err)
				}
				ls.Ghosts = append(ls.Ghosts, LoopGhost{nm, ty, ie, se})
			default:
				return fmt.Errorf("%s: unknown loop clause %q", where(L.line), w2)
			}
		case "calls":
			callee, r2 := splitWord(rest)
			w2, r3 := splitWord(r2)
			if w2 != "requires" {
				return fmt.Errorf("%s: calls <callee> requires <expr>", where(L.line))
			}
			c, err := parseClause(r3, L.line)
			if err != nil {
				return err
			}
			cur.Calls = append(cur.Calls, CallReq{callee, c})
		case "strings":
			cur.Strings = strings.TrimSpace(rest)
		case "check":
			if strings.TrimSpace(rest) == "overflow" {
				cur.Overflow = true
			}
			if strings.TrimSpace(rest) == "encodable" {
				cur.Encodable = true
			}
		case "monitor":
			cur.Monitor = strings.TrimSpace(rest)
		case "cut":
			cur.Cut = strings.TrimSpace(rest)
		case "trusted":
			cur.Trusted = true
		case "pure":
			cur.Pure = true
		case "noframe":
			cur.NoFrame = true
		case "nopanic":
			cur.NoPanic = strings.TrimSpace(rest) != "off"
		default:
			return fmt.Errorf("%s: unknown clause %q", where(L.line), word)
		}
	}
	return nil
}

func (C *Contracts) parseSpecDecl(word, rest, pkg, where string) error {
	switch word {
	case "pred", "func":
		// name(params) [Type] := expr
		i := strings.Index(rest, ":=")
		if i < 0 {
			return fmt.Errorf("%s: missing :=", where)
		}
		head := strings.TrimSpace(rest[:i])
		body, err := parseExpr(strings.TrimSpace(rest[i+2:]))
		if err != nil {
			return fmt.Errorf("%s: %v", where, err)
		}
		name, params, res, err := parseHead(head)
		if err != nil {
			return fmt.Errorf("%s: %v", where, err)
		}
		if word == "pred" {
			res = "bool"
		}
		if _, dup := C.Specs[name]; dup {
			return fmt.Errorf("%s: duplicate spec function %s", where, name)
		}
		C.Specs[name] = &SpecFunc{Name: name, Params: params, Result: res, Body: body, Pkg: pkg, Where: where}
	case "ufunc":
		name, params, res, err := parseHead(strings.TrimSpace(rest))
		if err != nil {
			return fmt.Errorf("%s: %v", where, err)
		}
		C.UFuncs[name] = &UFunc{Name: name, Params: params, Result: res, Pkg: pkg}
	case "axiom", "lemma":
		c := Clause{Where: where}
		if m := labelRe.FindStringSubmatch(rest); m != nil {
			c.Label = m[1]
			rest = rest[len(m[0]):]
		}
		e, err := parseExpr(rest)
		if err != nil {
			return fmt.Errorf("%s: %v", where, err)
		}
		c.E, c.Src = e, rest
		if word == "axiom" {
			C.Axioms = append(C.Axioms, AxiomDecl{c, pkg})
		} else {
			C.Lemmas = append(C.Lemmas, AxiomDecl{c, pkg})
		}
	case "ghost":
		// ghost var NAME TYPE
		parts := strings.Fields(rest)
		if len(parts) < 3 || parts[0] != "var" {
			return fmt.Errorf("%s: ghost var NAME TYPE", where)
		}
		C.Ghosts[parts[1]] = strings.Join(parts[2:], " ")
	case "set":
		i := strings.Index(rest, "=")
		if i < 0 {
			return fmt.Errorf("%s: set NAME = {..}", where)
		}
		name := strings.TrimSpace(rest[:i])
		body := strings.TrimSpace(rest[i+1:])
		body = strings.TrimPrefix(body, "{")
		body = strings.TrimSuffix(body, "}")
		var elems []string
		for _, p := range splitTop(body) {
			p = strings.TrimSpace(p)
			if p == "" {
				continue
			}
			u, err := strconv.Unquote(p)
			if err != nil {
				return fmt.Errorf("%s: set element %s: %v", where, p, err)
			}
			elems = append(elems, u)
		}
		C.Sets[name] = elems
	default:
		return fmt.Errorf("%s: unknown spec declaration %q", where, word)
	}
	return nil
}

func parseHead(head string) (string, []BVar, string, error) {
	i := strings.Index(head, "(")
	j := strings.LastIndex(head, ")")
	if i < 0 || j < i {
		return "", nil, "", fmt.Errorf("bad head %q", head)
	}
	name := strings.TrimSpace(head[:i])
	var params []BVar
	for _, p := range splitTop(head[i+1 : j]) {
		p = strings.TrimSpace(p)
		if p == "" {
			continue
		}
		n, t := splitWord(p)
		params = append(params, BVar{n, strings.TrimSpace(t)})
	}
	// params like "a, b string": fill missing types from the right
	for k := len(params) - 1; k >= 0; k-- {
		if params[k].Type == "" && k+1 < len(params) {
			params[k].Type = params[k+1].Type
		}
	}
	return name, params, strings.TrimSpace(head[j+1:]), nil
}

func splitWord(s string) (string, string) {
	s = strings.TrimSpace(s)
	i := strings.IndexAny(s, " \t")
	if i < 0 {
		return s, ""
	}
	return s[:i], strings.TrimSpace(s[i+1:])
}

func splitList(s string) []string {
	var out []string
	for _, p := range strings.Split(s, ",") {
		p = strings.TrimSpace(p)
		if p != "" {
			out = append(out, p)
		}
	}
	return out
}

// splitTop splits on commas that are not nested in brackets/parens/strings.
func splitTop(s string) []string {
	var out []string
	depth := 0
	inStr := false
	start := 0
	for i := 0; i < len(s); i++ {
		c := s[i]
		if inStr {
			if c == '\\' {
				i++
			} else if c == '"' {
				inStr = false
			}
			continue
		}
		switch c {
		case '"':
			inStr = true
		case '(', '[', '{':
			depth++
		case ')', ']', '}':
			depth--
		case ',':
			if depth == 0 {
				out = append(out, s[start:i])
				start = i + 1
			}
		}
	}
	out = append(out, s[start:])
	return out
}


// lookupFunc finds the contract for a key: exact match first, then glob patterns (keys containing '*').
func (C *Contracts) lookupFunc(key string) *FuncContract {
	if fc, ok := C.Funcs[key]; ok {
		return fc
	}
	for k, fc := range C.Funcs {
		if strings.Contains(k, "*") && k != key {
			if globKey(k, key) {
				return fc
			}
		}
	}
	return nil
}

// globKey matches pattern with '*' wildcards that are not the pointer-receiver star "(*T)".
func globKey(pat, key string) bool {
	// protect "(*" sequences
	p := strings.ReplaceAll(pat, "(*", "(\x00")
	parts := strings.Split(p, "*")
	for i := range parts {
		parts[i] = strings.ReplaceAll(parts[i], "(\x00", "(*")
	}
	if len(parts) == 1 {
		return pat == key
	}
	if !strings.HasPrefix(key, parts[0]) {
		return false
	}
	rest := key[len(parts[0]):]
	for i := 1; i < len(parts)-1; i++ {
		j := strings.Index(rest, parts[i])
		if j < 0 {
			return false
		}
		rest = rest[j+len(parts[i]):]
	}
	return strings.HasSuffix(rest, parts[len(parts)-1])
}


// parseFuncHeader splits "KEY(params) (results)" where KEY may itself contain "(*T)".
// For `func` blocks (sigExpected=false) a bare key without a parameter list is the norm.
func parseFuncHeader(rest string, sigExpected bool) (string, []string, []string) {
	rest = strings.TrimSpace(rest)
	var results []string
	if strings.HasSuffix(rest, ")") {
		// optional results group: preceded by ") ("
		if i := strings.LastIndex(rest, ") ("); i >= 0 {
			results = splitList(rest[i+3 : len(rest)-1])
			rest = rest[:i+1]
		}
	}
	if strings.HasSuffix(rest, ")") {
		// last parenthesised group = params, unless it is the receiver "(*T)" / "(T)" of a bare key
		depth := 0
		for i := len(rest) - 1; i >= 0; i-- {
			switch rest[i] {
			case ')':
				depth++
			case '(':
				depth--
				if depth == 0 {
					key := rest[:i]
					if key == "" || strings.HasSuffix(key, ".") {
						// receiver group of a bare key like "(*T).M" cannot end the string; treat as no params
						return rest, nil, results
					}
					return key, splitList(rest[i+1 : len(rest)-1]), results
				}
			}
		}
	}
	return rest, nil, results
}

// parseLocExpr parses one entry of a modifies / preserves / stable list; maps(T) takes a Go type, which the
// expression grammar does not cover (map[string]string).
func parseLocExpr(m string) (*Expr, error) {
	t := strings.TrimSpace(m)
	if strings.HasPrefix(t, "elems(") && strings.HasSuffix(t, ")") {
		ty := strings.TrimSpace(t[6 : len(t)-1])
		return &Expr{Kind: "call", Name: "elems", Args: []*Expr{{Kind: "ident", Name: ty, Src: ty}}, Src: t}, nil
	}
	if strings.HasPrefix(t, "maps(") && strings.HasSuffix(t, ")") {
		ty := strings.TrimSpace(t[5 : len(t)-1])
		return &Expr{Kind: "call", Name: "maps", Args: []*Expr{{Kind: "ident", Name: ty, Src: ty}}, Src: t}, nil
	}
	return parseExpr(m)
}
