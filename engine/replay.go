package main

// Counterexample replay: a failed `ensures` obligation whose query is satisfiable yields a model; the values the
// model gives to the function's inputs are turned into a Go call of the REAL function (an in-package test injected
// with `go test -overlay`, nothing is written to /repo), the observed results are read back, and the failed clause
// is evaluated by the solver on the concrete inputs and the observed outputs. Only when the clause is false on what
// the real code did is the counterexample reported as reproduced. Scope: functions without side effects whose
// inputs are scalars, strings, byte strings, times, errors, structs of those, pointers to such structs and slices
// of such values; clauses that do not mention ghost state.

import (
	"bytes"
	"context"
	"encoding/json"
	"fmt"
	"go/types"
	"math/big"
	"os"
	"os/exec"
	"path/filepath"
	"sort"
	"strconv"
	"strings"
	"time"

	"golang.org/x/tools/go/ssa"
)

type replayOutcome struct {
	Reproduced bool              `json:"reproduced"`
	Why        string            `json:"why,omitempty"`
	Call       string            `json:"call,omitempty"`
	Args       map[string]string `json:"args,omitempty"`
	Observed   []string          `json:"observed,omitempty"`
	TestSource string            `json:"test_source,omitempty"`
	PkgDir     string            `json:"package_dir,omitempty"`
	Cmd        string            `json:"cmd,omitempty"`
	EvalSMT    string            `json:"clause_eval_smt,omitempty"`
}

// ---- s-expressions (solver output) ----

type sx struct {
	atom string
	list []*sx
}

func (s *sx) String() string {
	if s == nil {
		return "<no-value>"
	}
	if s.list == nil {
		return s.atom
	}
	var ps []string
	for _, e := range s.list {
		ps = append(ps, e.String())
	}
	return "(" + strings.Join(ps, " ") + ")"
}

func parseSx(text string) []*sx {
	var out []*sx
	i := 0
	var rec func() *sx
	skip := func() {
		for i < len(text) && (text[i] == ' ' || text[i] == '\n' || text[i] == '\t' || text[i] == '\r') {
			i++
		}
	}
	rec = func() *sx {
		skip()
		if i >= len(text) {
			return nil
		}
		if text[i] == '(' {
			i++
			n := &sx{list: []*sx{}}
			for {
				skip()
				if i >= len(text) {
					return n
				}
				if text[i] == ')' {
					i++
					return n
				}
				c := rec()
				if c == nil {
					return n
				}
				n.list = append(n.list, c)
			}
		}
		if text[i] == '"' {
			j := i + 1
			for j < len(text) {
				if text[j] == '"' {
					if j+1 < len(text) && text[j+1] == '"' {
						j += 2
						continue
					}
					break
				}
				j++
			}
			a := text[i : j+1]
			i = j + 1
			return &sx{atom: a}
		}
		if text[i] == '|' {
			j := strings.IndexByte(text[i+1:], '|')
			a := text[i : i+j+2]
			i += j + 2
			return &sx{atom: a}
		}
		j := i
		for j < len(text) && !strings.ContainsRune(" \n\t\r()", rune(text[j])) {
			j++
		}
		a := text[i:j]
		i = j
		return &sx{atom: a}
	}
	for {
		skip()
		if i >= len(text) {
			break
		}
		n := rec()
		if n == nil {
			break
		}
		out = append(out, n)
	}
	return out
}

func sxInt(s *sx) (*big.Int, bool) {
	if s == nil {
		return nil, false
	}
	if s.list == nil {
		n, ok := new(big.Int).SetString(s.atom, 10)
		return n, ok
	}
	if len(s.list) == 2 && s.list[0].atom == "-" {
		n, ok := sxInt(s.list[1])
		if !ok {
			return nil, false
		}
		return new(big.Int).Neg(n), true
	}
	return nil, false
}

func sxRat(s *sx) (*big.Rat, bool) {
	if s == nil {
		return nil, false
	}
	if s.list == nil {
		r, ok := new(big.Rat).SetString(s.atom)
		return r, ok
	}
	if len(s.list) == 2 && s.list[0].atom == "-" {
		r, ok := sxRat(s.list[1])
		if !ok {
			return nil, false
		}
		return new(big.Rat).Neg(r), true
	}
	if len(s.list) == 3 && s.list[0].atom == "/" {
		p, ok1 := sxRat(s.list[1])
		q, ok2 := sxRat(s.list[2])
		if !ok1 || !ok2 || q.Sign() == 0 {
			return nil, false
		}
		return new(big.Rat).Quo(p, q), true
	}
	return nil, false
}

// unescape an SMT-LIB string literal ("" for a quote, \u{hh} escapes)
func smtUnquote(a string) string {
	a = a[1 : len(a)-1]
	a = strings.ReplaceAll(a, `""`, `"`)
	var b strings.Builder
	for i := 0; i < len(a); i++ {
		if a[i] == '\\' && i+2 < len(a) && a[i+1] == 'u' {
			if a[i+2] == '{' {
				j := strings.IndexByte(a[i:], '}')
				if j > 0 {
					if n, err := strconv.ParseUint(a[i+3:i+j], 16, 32); err == nil {
						if n < 256 {
							b.WriteByte(byte(n))
						} else {
							b.WriteRune(rune(n))
						}
						i += j
						continue
					}
				}
			} else if i+5 < len(a) {
				if n, err := strconv.ParseUint(a[i+2:i+6], 16, 32); err == nil {
					b.WriteRune(rune(n))
					i += 5
					continue
				}
			}
		}
		b.WriteByte(a[i])
	}
	return b.String()
}

// ---- building the call ----

type rbuilder struct {
	x       *Exec
	need    []*Term
	seen    map[string]bool
	imports map[string]string // path -> name
	partial []string          // inputs left at their zero value (not representable)
	fail    string
	pkgPath string
	// model
	val    map[string]*sx
	strOf  map[string]string // abstract Str value -> Go string
	errOf  map[string]string // abstract Err value -> Go expression
	errTm  map[string]*Term  // abstract Err value -> term used in the evaluation query
	synthN int
}

func (r *rbuilder) want(t *Term) {
	k := t.String()
	if !r.seen[k] {
		r.seen[k] = true
		r.need = append(r.need, t)
	}
}

func (r *rbuilder) qual(p *types.Package) string {
	if p == nil || p.Path() == r.pkgPath {
		return ""
	}
	r.imports[p.Path()] = p.Name()
	return p.Name()
}

func (r *rbuilder) typeStr(t types.Type) string {
	return types.TypeString(t, r.qual)
}

const maxReplaySlice = 4

// plan registers the terms needed to build a value of type t from v and returns the builder.
func (r *rbuilder) plan(v *Val, t types.Type, depth int) func() string {
	x := r.x
	if depth > 4 {
		r.partial = append(r.partial, r.typeStr(t)+" (nesting)")
		return func() string { return "" }
	}
	tt := types.Unalias(t)
	if isNamed(tt, "time", "Time") {
		r.want(v.T)
		return func() string {
			n, ok := sxInt(r.val[v.T.String()])
			if !ok || n.BitLen() > 66 {
				r.fail = "time value out of range"
				return ""
			}
			r.imports["time"] = "time"
			if n.Sign() == 0 {
				return "time.Time{}"
			}
			// the model's timeline counts nanoseconds from the zero time.Time (year 1), so that 0 is IsZero()
			q, m := new(big.Int).DivMod(n, big.NewInt(1000000000), new(big.Int))
			return fmt.Sprintf("time.Unix(%d, %d).UTC()", q.Int64()-62135596800, m.Int64())
		}
	}
	switch u := tt.Underlying().(type) {
	case *types.Basic:
		switch {
		case u.Info()&types.IsBoolean != 0:
			r.want(v.T)
			return func() string { return r.cast(t, r.val[v.T.String()].String()) }
		case u.Info()&types.IsInteger != 0:
			r.want(v.T)
			return func() string {
				n, ok := sxInt(r.val[v.T.String()])
				if !ok {
					r.fail = "integer value not parsed"
					return ""
				}
				lo, hi := intRange(u)
				if lo != "" {
					l, _ := new(big.Int).SetString(lo, 10)
					h, _ := new(big.Int).SetString(hi, 10)
					if n.Cmp(l) < 0 || n.Cmp(h) > 0 {
						r.fail = "model integer outside the machine range of " + u.Name()
						return ""
					}
				}
				return r.cast(t, n.String())
			}
		case u.Info()&types.IsFloat != 0:
			r.want(v.F[0].T)
			r.want(v.F[1].T)
			return func() string {
				if r.val[v.F[0].T.String()].String() == "true" {
					r.imports["math"] = "math"
					return r.cast(t, "math.NaN()")
				}
				q, ok := sxRat(r.val[v.F[1].T.String()])
				if !ok {
					r.fail = "real value not parsed"
					return ""
				}
				f, _ := q.Float64()
				return r.cast(t, strconv.FormatFloat(f, 'g', -1, 64))
			}
		case u.Info()&types.IsString != 0:
			r.want(v.T)
			r.want(x.strLen(v.T))
			r.probeImages(v.T)
			return func() string { return r.cast(t, strconv.Quote(r.goString(v.T))) }
		}
	case *types.Slice:
		if isByte(u.Elem()) {
			r.want(v.T)
			r.want(x.strLen(v.T))
			return func() string { return "[]byte(" + strconv.Quote(r.goString(v.T)) + ")" }
		}
		if v.K != VSlice {
			break
		}
		r.want(v.F[0].T)
		r.want(v.F[2].T)
		var els []func() string
		for i := 0; i < maxReplaySlice; i++ {
			ev := x.loadElem(x.entry, v.F[0].T, intLit(int64(i)), u.Elem(), "", u.Elem())
			els = append(els, r.plan(ev, u.Elem(), depth+1))
		}
		return func() string {
			ar, _ := sxInt(r.val[v.F[0].T.String()])
			n, ok := sxInt(r.val[v.F[2].T.String()])
			if !ok || !n.IsInt64() || n.Int64() > maxReplaySlice {
				r.fail = fmt.Sprintf("slice longer than %d in the model", maxReplaySlice)
				return ""
			}
			if n.Int64() == 0 {
				if ar != nil && ar.Sign() == 0 {
					return "nil"
				}
				return r.typeStr(t) + "{}"
			}
			var ps []string
			for i := int64(0); i < n.Int64(); i++ {
				ps = append(ps, els[i]())
			}
			return r.typeStr(t) + "{" + strings.Join(ps, ", ") + "}"
		}
	case *types.Struct:
		if v.K != VStruct || isOpaqueNamed(tt) {
			break
		}
		var fs []func() string
		var names []string
		for i := 0; i < u.NumFields(); i++ {
			f := u.Field(i)
			if !f.Exported() && f.Pkg() != nil && f.Pkg().Path() != r.pkgPath {
				r.partial = append(r.partial, f.Name()+" (unexported field of another package)")
				continue
			}
			if k, _ := classify(f.Type()); k == TUnit {
				continue
			}
			if !r.representable(f.Type()) {
				r.partial = append(r.partial, f.Name()+" "+r.typeStr(f.Type()))
				continue
			}
			names = append(names, f.Name())
			fs = append(fs, r.plan(v.F[i], f.Type(), depth+1))
		}
		return func() string {
			var ps []string
			for i, f := range fs {
				e := f()
				if e != "" {
					ps = append(ps, names[i]+": "+e)
				}
			}
			return r.typeStr(t) + "{" + strings.Join(ps, ", ") + "}"
		}
	case *types.Pointer:
		st, ok := u.Elem().Underlying().(*types.Struct)
		if !ok || isOpaqueNamed(u.Elem()) || v.K != VScalar {
			break
		}
		_ = st
		r.want(v.T)
		obj := x.loadObj(x.entry, v.T, u.Elem(), "", u.Elem())
		inner := r.plan(obj, u.Elem(), depth+1)
		return func() string {
			n, ok := sxInt(r.val[v.T.String()])
			if ok && n.Sign() == 0 {
				return "nil"
			}
			return "&" + inner()
		}
	case *types.Interface:
		if isErrorType(tt) {
			r.want(v.T)
			for _, k := range sortedKeys(x.sentinel) {
				if x.ufuncs["uf.errIs"] || x.axiomsOn["errIs"] {
					r.want(x.ufApp("errIs", SBool, v.T, x.sentinel[k]))
				}
			}
			return func() string { return r.goError(v.T) }
		}
	}
	r.partial = append(r.partial, r.typeStr(t))
	return func() string { return "" }
}

func (r *rbuilder) representable(t types.Type) bool {
	tt := types.Unalias(t)
	if isNamed(tt, "time", "Time") {
		return true
	}
	switch u := tt.Underlying().(type) {
	case *types.Basic:
		return u.Info()&(types.IsBoolean|types.IsInteger|types.IsFloat|types.IsString) != 0
	case *types.Slice:
		return isByte(u.Elem()) || r.representable(u.Elem())
	case *types.Struct:
		return !isOpaqueNamed(tt)
	case *types.Pointer:
		_, ok := u.Elem().Underlying().(*types.Struct)
		return ok && !isOpaqueNamed(u.Elem())
	case *types.Interface:
		return isErrorType(tt)
	}
	return false
}

func (r *rbuilder) cast(t types.Type, lit string) string {
	if _, ok := types.Unalias(t).(*types.Named); ok {
		return r.typeStr(t) + "(" + lit + ")"
	}
	if b, ok := types.Unalias(t).(*types.Basic); ok {
		switch b.Kind() {
		case types.Int, types.String, types.Bool, types.Float64, types.UntypedInt, types.UntypedString, types.UntypedBool:
			return lit
		}
		return b.Name() + "(" + lit + ")"
	}
	return lit
}

// str1Names lists the unary string functions (trim, lower, ...) the query uses.
func (r *rbuilder) str1Names() []string {
	var out []string
	for _, k := range sortedKeys(r.x.axiomsOn) {
		if strings.HasPrefix(k, "str1:") {
			out = append(out, k[5:])
		}
	}
	return out
}

// probeImages asks the model for f(t) and g(f(t)) for the unary string functions in use: an abstract input whose
// image is a literal can then be replaced by a concrete pre-image.
func (r *rbuilder) probeImages(t *Term) {
	if r.x.strTheory {
		return
	}
	ns := r.str1Names()
	for _, f := range ns {
		ft := r.x.ufApp("str."+f, SStr, t)
		r.want(ft)
		for _, g := range ns {
			if g != f {
				r.want(r.x.ufApp("str."+g, SStr, ft))
			}
		}
	}
}

// preimage looks for a concrete string whose images under the real Go functions agree with the model's images of t.
func (r *rbuilder) preimage(t *Term) (string, bool) {
	ns := r.str1Names()
	type img struct {
		fs  []string
		val string
	}
	var known []img
	for _, f := range ns {
		ft := r.x.ufApp("str."+f, SStr, t)
		if v := r.val[ft.String()]; v != nil {
			if sv, ok := r.strOf[v.String()]; ok {
				known = append(known, img{[]string{f}, sv})
			}
		}
		for _, g := range ns {
			if g == f {
				continue
			}
			if v := r.val[r.x.ufApp("str."+g, SStr, ft).String()]; v != nil {
				if sv, ok := r.strOf[v.String()]; ok {
					known = append(known, img{[]string{f, g}, sv})
				}
			}
		}
	}
	if len(known) == 0 {
		return "", false
	}
	apply := func(fs []string, s string) string {
		for _, f := range fs {
			s = goStr1(f, s)
		}
		return s
	}
	var cands []string
	for _, k := range known {
		cands = append(cands, k.val, " "+k.val, strings.ToUpper(k.val), " "+strings.ToUpper(k.val)+" ")
	}
	for _, c := range cands {
		ok := true
		for _, k := range known {
			if apply(k.fs, c) != k.val {
				ok = false
				break
			}
		}
		if !ok {
			continue
		}
		// must not collide with a string that stands for a different abstract value
		clash := false
		for _, used := range r.strOf {
			if used == c {
				clash = true
			}
		}
		if !clash {
			return c, true
		}
	}
	return "", false
}

// goString maps the model value of a string term to a concrete Go string.
func (r *rbuilder) goString(t *Term) string {
	v := r.val[t.String()]
	if v == nil {
		return ""
	}
	if r.x.strTheory {
		if v.list == nil && strings.HasPrefix(v.atom, `"`) {
			return smtUnquote(v.atom)
		}
		r.fail = "string value not a literal: " + v.String()
		return ""
	}
	k := v.String()
	if s, ok := r.strOf[k]; ok {
		return s
	}
	if c, ok := r.preimage(t); ok {
		r.strOf[k] = c
		return c
	}
	// an abstract value that is no literal of the query: synthesise a distinct string of the model's length
	n := 1
	if lv := r.val[r.x.strLen(t).String()]; lv != nil {
		if bi, ok := sxInt(lv); ok && bi.IsInt64() && bi.Int64() >= 0 && bi.Int64() <= 256 {
			n = int(bi.Int64())
		} else {
			r.fail = "string length in the model is not replayable: " + lv.String()
			return ""
		}
	}
	r.synthN++
	s := strings.Repeat(string(rune('a'+(r.synthN-1)%26)), n)
	if n >= 2 {
		s = fmt.Sprintf("%s%d", s[:n-1], r.synthN%10)
	}
	for _, used := range r.strOf {
		if used == s && n > 0 {
			r.fail = "could not synthesise distinct strings of length " + strconv.Itoa(n)
			return ""
		}
	}
	r.strOf[k] = s
	return s
}

func (r *rbuilder) goError(t *Term) string {
	v := r.val[t.String()]
	if v == nil {
		return "nil"
	}
	k := v.String()
	if e, ok := r.errOf[k]; ok {
		return e
	}
	// abstract error: wrap the sentinels the model says it Is
	x := r.x
	var wraps []string
	var facts []*Term
	tm := x.D.fresh("rr.in.err", SErr)
	for _, sk := range sortedKeys(x.sentinel) {
		iv := r.val[x.ufApp("errIs", SBool, t, x.sentinel[sk]).String()]
		is := iv != nil && iv.String() == "true"
		if is {
			ge, ok := r.sentinelGo(sk)
			if !ok {
				r.fail = "model needs an error wrapping " + sk + ", which the replay cannot name"
				return ""
			}
			wraps = append(wraps, ge)
			facts = append(facts, x.ufApp("errIs", SBool, tm, x.sentinel[sk]))
		} else if iv != nil {
			facts = append(facts, tNot(x.ufApp("errIs", SBool, tm, x.sentinel[sk])))
		}
	}
	r.imports["errors"] = "errors"
	e := fmt.Sprintf("errors.New(\"govc-replay-error-%d\")", len(r.errOf))
	if len(wraps) == 1 {
		r.imports["fmt"] = "fmt"
		e = fmt.Sprintf("fmt.Errorf(\"govc-replay-error-%d: %%w\", %s)", len(r.errOf), wraps[0])
	} else if len(wraps) > 1 {
		e = "errors.Join(" + strings.Join(wraps, ", ") + ")"
	}
	r.errOf[k] = e
	facts = append(facts, tNot(tEq(tm, errNil)))
	r.errTm[k] = tm
	r.x.replayFacts = append(r.x.replayFacts, facts...)
	return e
}

// sentinelGo names a sentinel error (key "pkg.Name" or "import/path.Name") as a Go expression.
func (r *rbuilder) sentinelGo(key string) (string, bool) {
	i := strings.LastIndex(key, ".")
	if i < 0 {
		return "", false
	}
	pk, name := key[:i], key[i+1:]
	if pk == r.x.fn.Pkg.Pkg.Name() {
		return name, true
	}
	if p, ok := r.x.P.Pkgs[pk]; ok {
		r.imports[p.Types.Path()] = p.Types.Name()
		return p.Types.Name() + "." + name, true
	}
	if !strings.Contains(pk, ".") { // standard library path
		base := pk[strings.LastIndex(pk, "/")+1:]
		r.imports[pk] = base
		return base + "." + name, true
	}
	return "", false
}

// ---- the replay itself ----

func clauseMentionsGhost(x *Exec, e *Expr) bool {
	found := false
	var walk func(e *Expr)
	walk = func(e *Expr) {
		if e == nil || found {
			return
		}
		if e.Kind == "ident" {
			if _, ok := x.C.Ghosts[e.Name]; ok {
				found = true
			}
		}
		for _, a := range e.Args {
			walk(a)
		}
	}
	walk(e)
	return found
}

func attemptReplay(it *oblItem, outDir string) (out *replayOutcome) {
	x, o := it.x, it.o
	out = &replayOutcome{}
	defer func() {
		// a replay is an extra: whatever goes wrong in it, the violation is still reported (without an input)
		if r := recover(); r != nil {
			if os.Getenv("GOVC_DEBUG") != "" {
				panic(r)
			}
			out = &replayOutcome{Why: fmt.Sprintf("replay machinery failed: %v", r)}
		}
	}()
	if o.Kind != "ensures" || x.fc == nil || x.fn == nil || x.fn.Parent() != nil || x.exit == nil {
		out.Why = "replay is built for ensures clauses of named functions"
		return out
	}
	if len(x.fc.Modifies) > 0 || x.fc.ModAll || len(x.fc.Sets) > 0 {
		out.Why = "function has side effects (modifies/sets): post-state replay is not built"
		return out
	}
	var clause *Clause
	for i := range x.fc.Ensures {
		if x.fc.Ensures[i].Label == o.Label {
			clause = &x.fc.Ensures[i]
		}
	}
	if clause == nil {
		out.Why = "clause not found"
		return out
	}
	if clauseMentionsGhost(x, clause.E) {
		out.Why = "clause mentions ghost state, which a run of the real code cannot observe"
		return out
	}
	pkgInfo := x.P.Pkgs[x.fn.Pkg.Pkg.Name()]
	if pkgInfo == nil || len(pkgInfo.GoFiles) == 0 {
		out.Why = "package directory not found"
		return out
	}
	pkgDir := filepath.Dir(pkgInfo.GoFiles[0])
	r := &rbuilder{x: x, seen: map[string]bool{}, imports: map[string]string{"testing": "testing", "fmt": "fmt"}, pkgPath: x.fn.Pkg.Pkg.Path(),
		strOf: map[string]string{}, errOf: map[string]string{}, errTm: map[string]*Term{}}
	// plan the arguments
	type argPlan struct {
		name  string
		build func() string
	}
	var plans []argPlan
	for _, p := range x.fn.Params {
		if !r.representable(p.Type()) {
			out.Why = "parameter " + p.Name() + " of type " + p.Type().String() + " is not representable in a replay"
			return out
		}
		plans = append(plans, argPlan{p.Name(), r.plan(x.params[p.Name()], p.Type(), 0)})
	}
	for _, rt := range x.resultTyp {
		if !r.representable(rt) {
			out.Why = "result of type " + rt.String() + " is not observable in a replay"
			return out
		}
	}
	// constants needed to interpret abstract values
	r.want(strEmpty)
	for _, s := range x.litOrder {
		r.want(x.lits[s])
	}
	r.want(errNil)
	for _, k := range sortedKeys(x.sentinel) {
		r.want(x.sentinel[k])
	}
	// 1. model of the failed obligation (planning may have declared heap symbols the function never read)
	x.preludeText = ""
	var q strings.Builder
	q.WriteString("(set-option :produce-models true)\n")
	q.WriteString(x.query(o, false))
	q.WriteString("(get-value (")
	for _, t := range r.need {
		q.WriteString(t.String())
		q.WriteString(" ")
	}
	q.WriteString("))\n")
	mfile := filepath.Join(outDir, "model-"+sanitizeFile(o.Name)+".smt2")
	os.WriteFile(mfile, []byte(q.String()), 0o644)
	verdict, text := runPlain([]string{"z3-new", "-smt2", "-T:10", mfile}, 15)
	if verdict != "sat" {
		v2, t2 := runPlain([]string{"cvc5", "--lang=smt2", "--tlimit=15000", "--strings-exp", "--produce-models", mfile}, 20)
		if v2 != "sat" {
			v3, t3 := runPlain([]string{"z3", "-smt2", "-T:10", mfile}, 15)
			if v3 != "sat" {
				out.Why = "no model: the solvers answer " + verdict + " / " + v2 + " / " + v3 + " on the failed obligation"
				return out
			}
			v2, t2 = v3, t3
		}
		verdict, text = v2, t2
	}
	rest := text[strings.Index(text, "\n")+1:]
	forms := parseSx(rest)
	if len(forms) == 0 || forms[0].list == nil {
		out.Why = "model values not parsed"
		return out
	}
	r.val = map[string]*sx{}
	if os.Getenv("GOVC_DEBUG") != "" {
		fmt.Fprintf(os.Stderr, "replay: %d values for %d terms\n", len(forms[0].list), len(r.need))
	}
	for i, pr := range forms[0].list {
		if len(pr.list) == 2 && i < len(r.need) {
			r.val[r.need[i].String()] = pr.list[1]
		}
	}
	if !x.strTheory {
		r.strOf[r.val[strEmpty.String()].String()] = ""
		for _, s := range x.litOrder {
			if v := r.val[x.lits[s].String()]; v != nil {
				r.strOf[v.String()] = s
			}
		}
	}
	if v := r.val[errNil.String()]; v != nil {
		r.errOf[v.String()] = "nil"
		r.errTm[v.String()] = errNil
	}
	for _, k := range sortedKeys(x.sentinel) {
		if v := r.val[x.sentinel[k].String()]; v != nil {
			if ge, ok := r.sentinelGo(k); ok {
				r.errOf[v.String()] = ge
				r.errTm[v.String()] = x.sentinel[k]
			}
		}
	}
	// 2. the call
	out.Args = map[string]string{}
	var args []string
	recv := ""
	for i, pl := range plans {
		e := pl.build()
		if r.fail != "" {
			out.Why = "model not replayable: " + r.fail
			return out
		}
		out.Args[pl.name] = e
		if i == 0 && x.fn.Signature.Recv() != nil {
			recv = e
			continue
		}
		args = append(args, e)
	}
	call := x.fn.Name() + "(" + strings.Join(args, ", ") + ")"
	if recv != "" {
		call = "(" + recv + ")." + call
	}
	out.Call = call
	// 3. the test
	var sentinels []string
	for _, k := range sortedKeys(x.sentinel) {
		if ge, ok := r.sentinelGo(k); ok {
			sentinels = append(sentinels, fmt.Sprintf("{%q, %s}", k, ge))
		}
	}
	var src strings.Builder
	fmt.Fprintf(&src, "package %s\n\n// generated by govc (replay of a counterexample); never written into the repository\n\nimport (\n", x.fn.Pkg.Pkg.Name())
	r.imports["errors"] = "errors"
	r.imports["reflect"] = "reflect"
	r.imports["time"] = "time"
	r.imports["math"] = "math"
	r.imports["math/big"] = "big"
	var ips []string
	for p := range r.imports {
		ips = append(ips, p)
	}
	sort.Strings(ips)
	src.WriteString("\t//IMPORTS\n")
	src.WriteString(")\n\n")
	fmt.Fprintf(&src, "var govcSentinels = []struct {\n\tname string\n\terr  error\n}{%s}\n\n", strings.Join(sentinels, ", "))
	src.WriteString(replayDumper)
	src.WriteString("\nfunc TestGovcReplay(t *testing.T) {\n")
	nres := len(x.resultTyp)
	var lhs []string
	for i := 0; i < nres; i++ {
		lhs = append(lhs, fmt.Sprintf("r%d", i))
	}
	if nres > 0 {
		fmt.Fprintf(&src, "\t%s := %s\n", strings.Join(lhs, ", "), call)
		for i := 0; i < nres; i++ {
			fmt.Fprintf(&src, "\tgovcDump(%q, reflect.ValueOf(&r%d).Elem())\n", fmt.Sprintf("$%d", i), i)
		}
	} else {
		fmt.Fprintf(&src, "\t%s\n", call)
	}
	src.WriteString("\tfmt.Println(\"GOVC-DONE\")\n\t_ = errors.New\n\t_ = time.Now\n\t_ = math.NaN\n}\n")
	body := src.String()
	var imp strings.Builder
	for _, p := range ips {
		name := r.imports[p]
		if !strings.Contains(body, name+".") {
			continue // registered while describing a type that was not emitted
		}
		if name == p[strings.LastIndex(p, "/")+1:] {
			fmt.Fprintf(&imp, "\t%q\n", p)
		} else {
			fmt.Fprintf(&imp, "\t%s %q\n", name, p)
		}
	}
	out.TestSource = strings.Replace(body, "\t//IMPORTS\n", imp.String(), 1)
	out.PkgDir = pkgDir
	lines, cmd, err := runReplayTest(pkgDir, out.TestSource)
	out.Cmd = cmd
	if err != nil {
		out.Why = "replay did not run: " + err.Error()
		return out
	}
	out.Observed = lines
	// 4. evaluate the clause on concrete inputs and observed outputs
	obs := map[string][]string{}
	for _, l := range lines {
		f := strings.SplitN(l, " ", 3)
		if len(f) >= 2 {
			v := ""
			if len(f) == 3 {
				v = f[2]
			}
			obs[f[0]] = []string{f[1], v}
		}
	}
	saved := x.results
	var binds []*Term
	var fresh []*Val
	for i, rt := range x.resultTyp {
		rv := x.havocVal(rt, fmt.Sprintf("rr.out%d", i))
		fresh = append(fresh, rv)
		ok := r.bindObserved(rv, rt, fmt.Sprintf("$%d", i), obs, &binds)
		if !ok {
			x.results = saved
			out.Why = "observed result not expressible: " + r.fail
			return out
		}
	}
	x.results = fresh
	ctx := x.specCtx(x.exit, nil)
	T, err := x.specBool(ctx, clause.E)
	x.results = saved
	if err != nil {
		out.Why = "clause evaluation: " + err.Error()
		return out
	}
	// input bindings
	for _, t := range r.need {
		v := r.val[t.String()]
		if v == nil {
			continue
		}
		switch t.S {
		case SInt, SBool, SReal:
			binds = append(binds, tEq(t, &Term{Op: v.String(), S: t.S}))
		case SStr:
			if t == strEmpty || strings.HasPrefix(t.Op, "lit!") {
				continue
			}
			if x.strTheory {
				binds = append(binds, tEq(t, &Term{Op: v.String(), S: SStr}))
			} else if s, ok := r.strOf[v.String()]; ok {
				binds = append(binds, tEq(t, x.strLit(s)))
			}
		case SErr:
			if tm, ok := r.errTm[v.String()]; ok && tm != t {
				binds = append(binds, tEq(t, tm))
			}
		}
	}
	binds = append(binds, x.replayFacts...)
	x.preludeText = "" // new literals and symbols
	var e strings.Builder
	e.WriteString(x.prelude())
	for _, a := range x.asserts[:x.entryAsserts] {
		e.WriteString("(assert " + a.String() + ")\n")
	}
	for _, b := range binds {
		e.WriteString("(assert " + b.String() + ")\n")
	}
	e.WriteString("(push)\n(assert " + T.String() + ")\n(check-sat)\n(pop)\n(check-sat)\n")
	efile := filepath.Join(outDir, "eval-"+sanitizeFile(o.Name)+".smt2")
	os.WriteFile(efile, []byte(fixConstArrays(e.String())), 0o644)
	out.EvalSMT = efile
	_, etext := runPlain([]string{"z3-new", "-smt2", "-T:20", efile}, 25)
	ans := strings.Fields(etext)
	if len(ans) >= 2 && ans[0] == "unsat" && ans[1] == "sat" {
		// the bindings are consistent, and the clause cannot hold on them: the real code violates the clause
		out.Reproduced = true
		return out
	}
	out.Why = "the clause is not refuted on what the real code returned (solver: " + strings.Join(ans, " ") + ")"
	return out
}

// bindObserved relates the fresh result symbols to the values the real run printed.
func (r *rbuilder) bindObserved(v *Val, t types.Type, path string, obs map[string][]string, binds *[]*Term) bool {
	x := r.x
	tt := types.Unalias(t)
	get := func() ([]string, bool) {
		o, ok := obs[path]
		if !ok {
			r.fail = "no observation for " + path
		}
		return o, ok
	}
	if isNamed(tt, "time", "Time") {
		o, ok := get()
		if !ok {
			return false
		}
		*binds = append(*binds, tEq(v.T, intLitStr(o[1])))
		return true
	}
	switch u := tt.Underlying().(type) {
	case *types.Basic:
		o, ok := get()
		if !ok {
			return false
		}
		switch {
		case u.Info()&types.IsBoolean != 0:
			*binds = append(*binds, tEq(v.T, &Term{Op: o[1], S: SBool}))
		case u.Info()&types.IsInteger != 0:
			*binds = append(*binds, tEq(v.T, intLitStr(o[1])))
		case u.Info()&types.IsFloat != 0:
			if o[1] == "NaN" {
				*binds = append(*binds, v.F[0].T)
			} else {
				f, err := strconv.ParseFloat(o[1], 64)
				if err != nil {
					r.fail = "float not parsed"
					return false
				}
				q := new(big.Rat)
				if q.SetFloat64(f) == nil {
					r.fail = "infinite float result"
					return false
				}
				x.usesReal = true
				*binds = append(*binds, tNot(v.F[0].T), tEq(v.F[1].T, realLitStr("(/ "+q.Num().String()+".0 "+q.Denom().String()+".0)")))
			}
		case u.Info()&types.IsString != 0:
			s, err := strconv.Unquote(o[1])
			if err != nil {
				r.fail = "string not parsed"
				return false
			}
			*binds = append(*binds, tEq(v.T, x.strLit(s)))
		}
		return true
	case *types.Slice:
		if isByte(u.Elem()) {
			o, ok := get()
			if !ok {
				return false
			}
			s, err := strconv.Unquote(o[1])
			if err != nil {
				r.fail = "bytes not parsed"
				return false
			}
			*binds = append(*binds, tEq(v.T, x.strLit(s)))
			return true
		}
		r.fail = "slice results are not bound"
		return false
	case *types.Struct:
		for i := 0; i < u.NumFields(); i++ {
			f := u.Field(i)
			if k, _ := classify(f.Type()); k == TUnit {
				continue
			}
			if !r.representable(f.Type()) {
				continue // left unconstrained
			}
			if _, isSl := f.Type().Underlying().(*types.Slice); isSl && !isByte(f.Type().Underlying().(*types.Slice).Elem()) {
				continue
			}
			if _, isPtr := f.Type().Underlying().(*types.Pointer); isPtr {
				continue
			}
			if !r.bindObserved(v.F[i], f.Type(), path+"."+f.Name(), obs, binds) {
				return false
			}
		}
		return true
	case *types.Interface:
		if isErrorType(tt) {
			o, ok := get()
			if !ok {
				return false
			}
			if o[0] == "Enil" {
				*binds = append(*binds, tEq(v.T, errNil))
				return true
			}
			*binds = append(*binds, tNot(tEq(v.T, errNil)))
			isSet := map[string]bool{}
			ident := ""
			for _, p := range strings.Fields(o[1]) {
				if strings.HasPrefix(p, "is:") {
					isSet[p[3:]] = true
				}
				if strings.HasPrefix(p, "same:") {
					ident = p[5:]
				}
			}
			for _, k := range sortedKeys(x.sentinel) {
				if ident == k {
					*binds = append(*binds, tEq(v.T, x.sentinel[k]))
				}
				if x.axiomsOn["errIs"] {
					f := x.ufApp("errIs", SBool, v.T, x.sentinel[k])
					if isSet[k] {
						*binds = append(*binds, f)
					} else {
						*binds = append(*binds, tNot(f))
					}
				}
			}
			return true
		}
	case *types.Pointer:
		r.fail = "pointer results are not bound"
		return false
	}
	r.fail = "result type " + t.String()
	return false
}

const replayDumper = `
func govcDump(path string, v reflect.Value) {
	if v.Type() == reflect.TypeOf(time.Time{}) {
		if !v.CanInterface() {
			v = reflect.NewAt(v.Type(), v.Addr().UnsafePointer()).Elem()
		}
		tm := v.Interface().(time.Time)
		ns := new(big.Int).Mul(big.NewInt(tm.Unix()+62135596800), big.NewInt(1000000000))
		ns.Add(ns, big.NewInt(int64(tm.Nanosecond())))
		fmt.Printf("GOVC-RES %s I %s\n", path, ns.String())
		return
	}
	switch v.Kind() {
	case reflect.Bool:
		fmt.Printf("GOVC-RES %s B %v\n", path, v.Bool())
	case reflect.Int, reflect.Int8, reflect.Int16, reflect.Int32, reflect.Int64:
		fmt.Printf("GOVC-RES %s I %d\n", path, v.Int())
	case reflect.Uint, reflect.Uint8, reflect.Uint16, reflect.Uint32, reflect.Uint64, reflect.Uintptr:
		fmt.Printf("GOVC-RES %s I %d\n", path, v.Uint())
	case reflect.Float32, reflect.Float64:
		if math.IsNaN(v.Float()) {
			fmt.Printf("GOVC-RES %s F NaN\n", path)
		} else {
			fmt.Printf("GOVC-RES %s F %v\n", path, v.Float())
		}
	case reflect.String:
		fmt.Printf("GOVC-RES %s S %q\n", path, v.String())
	case reflect.Slice:
		if v.Type().Elem().Kind() == reflect.Uint8 {
			fmt.Printf("GOVC-RES %s S %q\n", path, string(v.Bytes()))
			return
		}
		fmt.Printf("GOVC-RES %s L %d\n", path, v.Len())
	case reflect.Struct:
		for i := 0; i < v.NumField(); i++ {
			govcDump(path+"."+v.Type().Field(i).Name, v.Field(i))
		}
	case reflect.Interface:
		if v.Type().Implements(reflect.TypeOf((*error)(nil)).Elem()) || v.Type() == reflect.TypeOf((*error)(nil)).Elem() {
			if v.IsNil() {
				fmt.Printf("GOVC-RES %s Enil\n", path)
				return
			}
			if !v.CanInterface() {
				fmt.Printf("GOVC-RES %s E unreadable\n", path)
				return
			}
			err := v.Interface().(error)
			s := ""
			for _, c := range govcSentinels {
				if err == c.err {
					s += " same:" + c.name
				}
				if errors.Is(err, c.err) {
					s += " is:" + c.name
				}
			}
			fmt.Printf("GOVC-RES %s E%s msg:%q\n", path, s, err.Error())
			return
		}
		fmt.Printf("GOVC-RES %s X\n", path)
	case reflect.Ptr:
		if v.IsNil() {
			fmt.Printf("GOVC-RES %s P nil\n", path)
		} else {
			fmt.Printf("GOVC-RES %s P set\n", path)
		}
	default:
		fmt.Printf("GOVC-RES %s X\n", path)
	}
}
`

func runPlain(argv []string, timeoutS int) (string, string) {
	ctx, cancel := context.WithTimeout(context.Background(), time.Duration(timeoutS)*time.Second)
	defer cancel()
	cmd := exec.CommandContext(ctx, argv[0], argv[1:]...)
	var out bytes.Buffer
	cmd.Stdout = &out
	cmd.Stderr = &out
	_ = cmd.Run()
	text := out.String()
	first := strings.TrimSpace(strings.SplitN(text, "\n", 2)[0])
	return first, text
}

// runReplayTest injects the test into the package with an overlay and runs it against the working tree.
func runReplayTest(pkgDir, source string) ([]string, string, error) {
	tmp, err := os.MkdirTemp("", "govc-replay-")
	if err != nil {
		return nil, "", err
	}
	defer os.RemoveAll(tmp)
	tf := filepath.Join(tmp, "zz_govc_replay_test.go")
	if err := os.WriteFile(tf, []byte(source), 0o644); err != nil {
		return nil, "", err
	}
	ov := map[string]any{"Replace": map[string]string{filepath.Join(pkgDir, "zz_govc_replay_test.go"): tf}}
	data, _ := json.Marshal(ov)
	of := filepath.Join(tmp, "overlay.json")
	os.WriteFile(of, data, 0o644)
	rel, _ := filepath.Rel(repoDir, pkgDir)
	argv := []string{"go", "test", "-overlay", of, "-vet=off", "-count=1", "-v", "-timeout", "60s", "-run", "^TestGovcReplay$", "./" + rel}
	ctx, cancel := context.WithTimeout(context.Background(), 180*time.Second)
	defer cancel()
	cmd := exec.CommandContext(ctx, argv[0], argv[1:]...)
	cmd.Dir = repoDir
	cmd.Env = goEnv()
	var out bytes.Buffer
	cmd.Stdout = &out
	cmd.Stderr = &out
	runErr := cmd.Run()
	var lines []string
	done := false
	for _, l := range strings.Split(out.String(), "\n") {
		if strings.HasPrefix(l, "GOVC-RES ") {
			lines = append(lines, strings.TrimPrefix(l, "GOVC-RES "))
		}
		if strings.HasPrefix(l, "GOVC-DONE") {
			done = true
		}
	}
	cmdText := "go test -overlay <generated> -vet=off -count=1 -v -timeout 60s -run ^TestGovcReplay$ ./" + rel
	if !done {
		if runErr == nil {
			runErr = fmt.Errorf("test did not complete")
		}
		return lines, cmdText, fmt.Errorf("%v: %s", runErr, trunc(out.String(), 1500))
	}
	return lines, cmdText, nil
}

var _ = ssa.NaiveForm
