package main

import (
	"fmt"
	"go/constant"
	"go/token"
	"go/types"
	"strings"

	"golang.org/x/tools/go/ssa"
)

func (x *Exec) execBuiltin(st *State, name string, c *ssa.CallCommon, args []*Val, pos token.Pos) (*Val, error) {
	switch name {
	case "len", "cap":
		a := args[0]
		switch {
		case a.K == VSlice:
			if name == "cap" {
				cp := x.D.fresh("cap", SInt)
				x.assume(st, tCmp(">=", cp, a.F[2].T))
				return intVal(cp), nil
			}
			return intVal(a.F[2].T), nil
		case a.K == VScalar && a.T.S == SStr:
			return intVal(x.strLen(a.T)), nil
		case a.K == VScalar:
			if mt, ok := c.Args[0].Type().Underlying().(*types.Map); ok {
				l := x.mapLen(st, mt, a.T)
				x.assume(st, tCmp(">=", l, intLit(0)))
				x.assume(st, tImp(tEq(a.T, intLit(0)), tEq(l, intLit(0))))
				// a map with a key has positive length (so len == 0 means empty)
				ks, _ := sortOfKey(mt.Key())
				kb := &Term{Op: "k!ml", S: ks}
				dom := x.mapDom(st, mt, a.T)
				x.assume(st, tForall([]*Term{kb}, tImp(tSelect(dom, kb), tCmp(">", l, intLit(0))), []*Term{tSelect(dom, kb)}))
				return intVal(l), nil
			}
		}
		v := x.D.fresh("len", SInt)
		x.assume(st, tCmp(">=", v, intLit(0)))
		return intVal(v), nil
	case "delete":
		mt := c.Args[0].Type().Underlying().(*types.Map)
		x.mapDelete(st, mt, args[0].T, x.keyTerm(args[1]))
		return unitVal, nil
	case "append":
		return x.execAppend(st, c, args, pos)
	case "copy":
		// copy(dst, src): contents of dst's overlapping prefix become src's
		if args[0].K == VSlice && args[1].K == VSlice {
			et := c.Args[0].Type().Underlying().(*types.Slice).Elem()
			n := x.D.fresh("copy.n", SInt)
			x.assume(st, tEq(n, tIte(tCmp("<=", args[0].F[2].T, args[1].F[2].T), args[0].F[2].T, args[1].F[2].T)))
			for _, lf := range leavesOf(et) {
				key := sliceKey(et, lf.Path)
				h := x.heapGet(st, key, arr(SInt, arr(SInt, lf.S)))
				nw := x.D.fresh("copy.elems", arr(SInt, lf.S))
				i := &Term{Op: "i!cp", S: SInt}
				dstA, srcA := tSelect(h, args[0].F[0].T), tSelect(h, args[1].F[0].T)
				inRange := tAnd(tCmp(">=", i, args[0].F[1].T), tCmp("<", i, tArith("+", args[0].F[1].T, n)))
				x.assume(st, tForall([]*Term{i}, tEq(tSelect(nw, i), tIte(inRange, tSelect(srcA, tArith("+", tArith("-", i, args[0].F[1].T), args[1].F[1].T)), tSelect(dstA, i))), []*Term{tSelect(nw, i)}))
				x.heapSet(st, key, tStore(h, args[0].F[0].T, nw))
			}
			return intVal(n), nil
		}
		n := x.D.fresh("copy.n", SInt)
		x.assume(st, tCmp(">=", n, intLit(0)))
		if args[0].K == VScalar && args[1].K == VScalar && args[0].T.S == SStr && args[1].T.S == SStr && x.freshBytes[args[0].T.String()] {
			// make([]byte, len(src)) ; copy(dst, src): the freshly made buffer now holds src (buffers are immutable
			// strings in this model; the make result is a prophecy symbol that nothing has read yet)
			x.assume(st, tImp(tEq(x.strLen(args[0].T), x.strLen(args[1].T)), tEq(args[0].T, args[1].T)))
		}
		return intVal(n), nil
	case "min", "max":
		r := args[0]
		for _, a := range args[1:] {
			if r.K == VFloat {
				x.unsupported("min/max on floats")
			}
			if name == "min" {
				r = scalar(tIte(tCmp("<=", r.T, a.T), r.T, a.T), r.Typ)
			} else {
				r = scalar(tIte(tCmp(">=", r.T, a.T), r.T, a.T), r.Typ)
			}
		}
		return r, nil
	case "close":
		x.noteDropped("close(chan)")
		return unitVal, nil
	case "print", "println":
		return unitVal, nil
	case "clear":
		if mt, ok := c.Args[0].Type().Underlying().(*types.Map); ok {
			for _, key := range mapKeys(mt) {
				if s, ok := x.heapSort[key]; ok {
					_, vs, _ := arrParts(s)
					h := x.heapGet(st, key, s)
					x.heapSet(st, key, tStore(h, args[0].T, zeroTerm(vs)))
				}
			}
			return unitVal, nil
		}
	case "recover":
		return x.havocVal(c.Signature().Results().At(0).Type(), "recover"), nil
	case "ssa:deferstack":
		return scalar(x.D.fresh("deferstack", SInt), nil), nil
	case "ssa:wrapnilchk":
		return args[0], nil
	}
	x.unsupported("builtin %s", name)
	return nil, nil
}

func (x *Exec) execAppend(st *State, c *ssa.CallCommon, args []*Val, pos token.Pos) (*Val, error) {
	rt := c.Signature().Results().At(0).Type()
	if k, _ := classify(rt); k == TScalar {
		// []byte append: concatenation
		if len(args) == 2 && args[1].K == VScalar && args[1].T.S == SStr {
			return scalar(x.strConcat(st, args[0].T, args[1].T), rt), nil
		}
		return x.havocVal(rt, "append"), nil
	}
	et := rt.Underlying().(*types.Slice).Elem()
	dst, src := args[0], args[1]
	if dst.K != VSlice {
		x.unsupported("append to non-slice value")
	}
	if src.K != VSlice {
		// variadic slice built from an opaque array (varargs): length known?
		x.unsupported("append with opaque variadic argument")
	}
	// result: fresh array r with r[0..len(dst)) = dst, r[len(dst)..) = src
	r := x.newRef(st, "append")
	n := tArith("+", dst.F[2].T, src.F[2].T)
	for _, lf := range leavesOf(et) {
		key := sliceKey(et, lf.Path)
		h := x.heapGet(st, key, arr(SInt, arr(SInt, lf.S)))
		nw := x.D.fresh("app.elems", arr(SInt, lf.S))
		i := &Term{Op: "i!ap", S: SInt}
		dstA, srcA := tSelect(h, dst.F[0].T), tSelect(h, src.F[0].T)
		body := tAnd(
			tImp(tAnd(tCmp(">=", i, intLit(0)), tCmp("<", i, dst.F[2].T)), tEq(tSelect(nw, i), tSelect(dstA, tArith("+", dst.F[1].T, i)))),
			tImp(tAnd(tCmp(">=", i, dst.F[2].T), tCmp("<", i, n)), tEq(tSelect(nw, i), tSelect(srcA, tArith("+", src.F[1].T, tArith("-", i, dst.F[2].T))))))
		if off, ok := isIntLit(dst.F[1].T); ok && off == 0 {
			// second trigger: a known element of the old array is an element of the new one (existential witnesses)
			x.assume(st, tForall([]*Term{i}, body, []*Term{tSelect(nw, i)}, []*Term{tSelect(dstA, i)}))
		} else {
			x.assume(st, tForall([]*Term{i}, body, []*Term{tSelect(nw, i)}))
		}
		if sn, ok := isIntLit(src.F[2].T); ok && sn >= 1 && sn <= 4 {
			// ground facts for the appended elements (witnesses for existential goals about the new last element)
			for j := int64(0); j < sn; j++ {
				x.assume(st, tEq(tSelect(nw, tArith("+", dst.F[2].T, intLit(j))), tSelect(srcA, tArith("+", src.F[1].T, intLit(j)))))
			}
		}
		x.heapSet(st, key, tStore(h, r, nw))
	}
	return &Val{K: VSlice, Typ: rt, F: []*Val{scalar(r, nil), scalar(intLit(0), nil), scalar(n, nil)}}, nil
}

// sliceFromVals builds a fresh slice holding the given element values (used for varargs).
func (x *Exec) sliceFromVals(st *State, et types.Type, vals []*Val) *Val {
	r := x.newRef(st, "lit")
	for i, v := range vals {
		x.storeElem(st, r, intLit(int64(i)), et, "", et, v)
	}
	return &Val{K: VSlice, Typ: types.NewSlice(et), F: []*Val{scalar(r, nil), scalar(intLit(0), nil), scalar(intLit(int64(len(vals))), nil)}}
}

// builtinExtern gives semantics to standard-library calls that the properties depend on.
// Everything here is an assumed specification and is listed in the evidence.
func (x *Exec) builtinExtern(st *State, key string, c *ssa.CallCommon, a []*Val, pos token.Pos) (*Val, bool, error) {
	use := func() { x.trusted["model:"+key] = true }
	T := func(i int) *Term { return a[i].T }
	str := func(t *Term) *Val { return scalar(t, types.Typ[types.String]) }
	rt := x.resultType(c)
	switch key {
	// ---- strings ----
	case "strings.TrimSpace":
		use()
		return str(x.strFn(st, "trim", T(0))), true, nil
	case "strings.ToLower":
		use()
		return str(x.strFn(st, "lower", T(0))), true, nil
	case "strings.ToUpper":
		use()
		return str(x.strFn(st, "upper", T(0))), true, nil
	case "strings.HasPrefix", "bytes.HasPrefix":
		use()
		return boolVal(x.strFn(st, "prefixof", T(1), T(0))), true, nil
	case "strings.HasSuffix", "bytes.HasSuffix":
		use()
		return boolVal(x.strFn(st, "suffixof", T(1), T(0))), true, nil
	case "strings.Contains":
		use()
		return boolVal(x.strFn(st, "contains", T(0), T(1))), true, nil
	case "strings.TrimPrefix":
		use()
		return str(x.strFn(st, "trimprefix", T(0), T(1))), true, nil
	case "strings.TrimSuffix":
		use()
		return str(x.strFn(st, "trimsuffix", T(0), T(1))), true, nil
	case "strings.EqualFold":
		use()
		x.assumptions["strings.EqualFold modelled as equality of ToLower images (ASCII folding)"] = true
		return boolVal(tEq(x.strFn(st, "lower", T(0)), x.strFn(st, "lower", T(1)))), true, nil
	case "net/http.CanonicalHeaderKey", "net/textproto.CanonicalMIMEHeaderKey":
		use()
		return str(x.strFn(st, "canon", T(0))), true, nil
	case "path.Clean":
		use()
		return str(x.strFn(st, "cleanpath", T(0))), true, nil
	// ---- time ----
	case "time.(Time).IsZero":
		use()
		return boolVal(tEq(T(0), intLit(0))), true, nil
	case "time.(Time).Before":
		use()
		return boolVal(tCmp("<", T(0), T(1))), true, nil
	case "time.(Time).After":
		use()
		return boolVal(tCmp(">", T(0), T(1))), true, nil
	case "time.(Time).Equal":
		use()
		return boolVal(tEq(T(0), T(1))), true, nil
	case "time.(Time).Compare":
		use()
		return intVal(tIte(tCmp("<", T(0), T(1)), intLit(-1), tIte(tCmp(">", T(0), T(1)), intLit(1), intLit(0)))), true, nil
	case "time.(Time).Add":
		use()
		return scalar(tArith("+", T(0), T(1)), rt), true, nil
	case "time.(Time).Sub":
		use()
		// Sub saturates: a difference outside the Duration range is reported as the nearest representable Duration
		d := tArith("-", T(0), T(1))
		lo, hi := intLitStr("-9223372036854775808"), intLitStr("9223372036854775807")
		return scalar(tIte(tCmp(">", d, hi), hi, tIte(tCmp("<", d, lo), lo, d)), rt), true, nil
	case "time.(Time).UTC", "time.(Time).Local", "time.(Time).Round", "time.(Time).Truncate":
		if key == "time.(Time).UTC" || key == "time.(Time).Local" {
			use()
			return scalar(T(0), rt), true, nil
		}
	case "time.(Time).UnixNano":
		use()
		return intVal(x.unixNanoTerm(T(0))), true, nil
	case "time.(Time).Unix":
		use()
		return intVal(mk("div", SInt, tArith("-", T(0), x.timeEpoch()), intLit(1000000000))), true, nil
	case "time.Unix":
		use()
		// Unix(sec, nsec)
		return scalar(tArith("+", x.timeEpoch(), tArith("+", tArith("*", T(0), intLit(1000000000)), T(1))), rt), true, nil
	case "time.Now":
		use()
		n := x.D.fresh("now", SInt)
		x.assume(st, tCmp(">", n, x.timeEpoch()))
		return scalar(n, rt), true, nil
	case "time.Since":
		use()
		n := x.D.fresh("now", SInt)
		x.assume(st, tCmp(">", n, x.timeEpoch()))
		return scalar(tArith("-", n, T(0)), rt), true, nil
	case "time.Until":
		use()
		n := x.D.fresh("now", SInt)
		x.assume(st, tCmp(">", n, x.timeEpoch()))
		return scalar(tArith("-", T(0), n), rt), true, nil
	// ---- errors ----
	case "errors.Is":
		use()
		return boolVal(x.errIs(st, T(0), T(1))), true, nil
	case "errors.New":
		use()
		e := x.D.fresh("errnew", SErr)
		x.assume(st, tNot(tEq(e, errNil)))
		return scalar(e, rt), true, nil
	case "fmt.Errorf":
		use()
		e := x.D.fresh("errorf", SErr)
		x.assume(st, tNot(tEq(e, errNil)))
		// %w wrapping: if the format literal contains %w, every error-typed variadic argument is wrapped.
		x.wrapFacts(st, c, e)
		return scalar(e, rt), true, nil
	case "errors.As":
		use()
		// errors.As(err, &target): an uninterpreted predicate of the error and the target type; the target is havoced
		tk := "unknown"
		var asTargets []*Term
		if pt, ok := c.Args[1].Type().Underlying().(*types.Pointer); ok {
			tk = typeKey(pt.Elem())
		} else if mi, ok := c.Args[1].(*ssa.MakeInterface); ok {
			if pt, ok := mi.X.Type().Underlying().(*types.Pointer); ok {
				tk = typeKey(pt.Elem())
				if al, isAl := rootAlloc(mi.X); isAl {
					if cur, okc := st.cells[al]; okc && isSMTVal(cur) {
						et := al.Type().(*types.Pointer).Elem()
						nv := x.havocVal(et, "as.target")
						st.cells[al] = nv
						if _, isPtr := et.Underlying().(*types.Pointer); isPtr && nv.K == VScalar && nv.T.S == SInt {
							asTargets = append(asTargets, nv.T)
						}
					}
				}
			}
		}
		r := x.ufApp("errAs."+tk, SBool, T(0))
		x.assume(st, tImp(tEq(T(0), errNil), tNot(r)))
		for _, tg := range asTargets {
			// a successful As stored the matching error from the chain in the pointer target: it is not nil
			x.assume(st, tImp(r, tNot(tEq(tg, intLit(0)))))
		}
		return boolVal(r), true, nil
	case "sort.Slice", "sort.SliceStable":
		// in-place permutation of the slice's elements (sortedness w.r.t. the closure is NOT modelled)
		if mi, ok := c.Args[0].(*ssa.MakeInterface); ok {
			if sv, ok := x.regs[mi.X]; ok && sv.K == VSlice {
				use()
				x.assumptions["sort.Slice is modelled as an arbitrary in-place permutation (bijection on the index range); the resulting order is not modelled"] = true
				et := mi.X.Type().Underlying().(*types.Slice).Elem()
				n := sv.F[2].T
				pi := x.D.fresh("perm", arr(SInt, SInt))
				inv := x.D.fresh("perm.inv", arr(SInt, SInt))
				i := &Term{Op: "i!pm", S: SInt}
				inr := func(t *Term) *Term { return tAnd(tCmp(">=", t, intLit(0)), tCmp("<", t, n)) }
				x.assume(st, tForall([]*Term{i}, tImp(inr(i), tAnd(inr(tSelect(pi, i)), tEq(tSelect(inv, tSelect(pi, i)), i))), []*Term{tSelect(pi, i)}))
				x.assume(st, tForall([]*Term{i}, tImp(inr(i), tAnd(inr(tSelect(inv, i)), tEq(tSelect(pi, tSelect(inv, i)), i))), []*Term{tSelect(inv, i)}))
				for _, lf := range leavesOf(et) {
					key := sliceKey(et, lf.Path)
					h := x.heapGet(st, key, arr(SInt, arr(SInt, lf.S)))
					old := tSelect(h, sv.F[0].T)
					nw := x.D.fresh("sorted.elems", arr(SInt, lf.S))
					x.assume(st, tForall([]*Term{i}, tImp(inr(i), tEq(tSelect(nw, i), tSelect(old, tSelect(pi, i)))), []*Term{tSelect(nw, i)}))
					x.heapSet(st, key, tStore(h, sv.F[0].T, nw))
				}
				st.ghost["$perm"] = &Val{K: VScalar, T: pi}
				st.ghost["$perminv"] = &Val{K: VScalar, T: inv}
				x.sortedFact(st, c, a[1], n)
				return unitVal, true, nil
			}
		}
	case "fmt.Sprintf":
		if v, ok := x.sprintfModel(st, c); ok {
			use()
			return v, true, nil
		}
	case "error.Error":
		use()
		return str(x.ufApp("err.text", SStr, T(0))), true, nil
	// ---- sync ----
	case "sync.(*Mutex).Lock", "sync.(*RWMutex).Lock":
		use()
		return x.lockOp(st, c, true, true, pos), true, nil
	case "sync.(*RWMutex).RLock":
		use()
		return x.lockOp(st, c, true, false, pos), true, nil
	case "sync.(*Mutex).Unlock", "sync.(*RWMutex).Unlock":
		use()
		return x.lockOp(st, c, false, true, pos), true, nil
	case "sync.(*RWMutex).RUnlock":
		use()
		return x.lockOp(st, c, false, false, pos), true, nil
	// ---- math ----
	case "math.Pow":
		use()
		x.usesReal = true
		x.axiomsOn["pow"] = true
		x.D.declareFun("uf.pow", []Sort{SReal, SReal}, SReal)
		r := mk("uf.pow", SReal, a[0].F[1].T, a[1].F[1].T)
		return &Val{K: VFloat, Typ: rt, F: []*Val{scalar(tOr(a[0].F[0].T, a[1].F[0].T), nil), scalar(r, nil)}}, true, nil
	case "math/rand.Float64", "math/rand/v2.Float64":
		use()
		x.usesReal = true
		r := x.D.fresh("rand", SReal)
		x.assume(st, tAnd(tCmp(">=", r, realLitStr("0")), tCmp("<", r, realLitStr("1"))))
		return &Val{K: VFloat, Typ: rt, F: []*Val{scalar(tFalse, nil), scalar(r, nil)}}, true, nil
	case "time.(Duration).Nanoseconds":
		use()
		return intVal(T(0)), true, nil
	case "time.(Duration).Seconds":
		use()
		x.usesReal = true
		return &Val{K: VFloat, Typ: rt, F: []*Val{scalar(tFalse, nil), scalar(mk("/", SReal, mk("to_real", SReal, T(0)), realLitStr("1000000000")), nil)}}, true, nil
	case "math.IsNaN":
		use()
		return boolVal(a[0].F[0].T), true, nil
	case "math.IsInf":
		use()
		x.assumptions["±Inf is not modelled: math.IsInf returns an unconstrained boolean"] = true
		return boolVal(x.D.fresh("isinf", SBool)), true, nil
	// ---- crypto/subtle ----
	case "crypto/subtle.ConstantTimeCompare":
		use()
		return intVal(tIte(tEq(T(0), T(1)), intLit(1), intLit(0))), true, nil
	case "crypto/hmac.Equal", "bytes.Equal":
		use()
		return boolVal(tEq(T(0), T(1))), true, nil
	// ---- encodings / hashes (uninterpreted, deterministic) ----
	case "encoding/hex.EncodeToString":
		use()
		return str(x.ufApp("hex", SStr, T(0))), true, nil
	case "encoding/hex.DecodeString":
		use()
		// (bytes, err): err == nil ==> hex(bytes) == lower(s) is NOT assumed; only hexdec determinism and hexdec(hex(x)) == x
		x.axiomsOn["hexdec"] = true
		x.D.declareFun("uf.hex", []Sort{SStr}, SStr)
		b := x.ufApp("hexdec", SStr, T(0))
		okv := x.ufApp("hexvalid", SBool, T(0))
		e := x.D.fresh("hexerr", SErr)
		x.assume(st, tEq(tEq(e, errNil), okv))
		return &Val{K: VTuple, Typ: rt, F: []*Val{str(b), scalar(e, nil)}}, true, nil
	case "encoding/base64.(*Encoding).EncodeToString":
		use()
		if !isStdBase64(c) {
			// another alphabet / padding: a different (uninterpreted) function of receiver and data
			return str(x.ufApp("b64other", SStr, T(0), T(1))), true, nil
		}
		x.axiomsOn["b64"] = true
		x.D.declareFun("uf.b64dec", []Sort{SStr}, SStr)
		x.D.declareFun("uf.b64valid", []Sort{SStr}, SBool)
		return str(x.ufApp("b64", SStr, T(1))), true, nil
	case "encoding/base64.(*Encoding).DecodeString":
		use()
		if !isStdBase64(c) {
			b := x.ufApp("b64otherdec", SStr, T(0), T(1))
			e := x.D.fresh("b64err", SErr)
			return &Val{K: VTuple, Typ: rt, F: []*Val{str(b), scalar(e, nil)}}, true, nil
		}
		x.axiomsOn["b64"] = true
		x.D.declareFun("uf.b64", []Sort{SStr}, SStr)
		b := x.ufApp("b64dec", SStr, T(1))
		okv := x.ufApp("b64valid", SBool, T(1))
		e := x.D.fresh("b64err", SErr)
		x.assume(st, tEq(tEq(e, errNil), okv))
		return &Val{K: VTuple, Typ: rt, F: []*Val{str(b), scalar(e, nil)}}, true, nil
	case "crypto/sha256.Sum256":
		use()
		return scalar(x.ufApp("sha256", SStr, T(0)), rt), true, nil
	case "strconv.FormatInt":
		use()
		return str(x.ufApp("itoa", SStr, T(0), T(1))), true, nil
	case "strconv.Itoa":
		use()
		return str(x.ufApp("itoa", SStr, T(0), intLit(10))), true, nil
	// ---- net/http.Header as map[string][]string keyed by the canonical name ----
	case "net/http.(Header).Set":
		use()
		mt := c.Args[0].Type().Underlying().(*types.Map)
		x.assume(st, tNot(tEq(T(0), intLit(0))))
		x.mapPut(st, mt, T(0), x.strFn(st, "canon", T(1)), x.sliceFromVals(st, types.Typ[types.String], []*Val{a[2]}))
		return unitVal, true, nil
	case "net/http.(Header).Add":
		use()
		mt := c.Args[0].Type().Underlying().(*types.Map)
		x.assume(st, tNot(tEq(T(0), intLit(0))))
		k := x.strFn(st, "canon", T(1))
		cur := x.mapGet(st, mt, T(0), k)
		x.assumeMapWF(st, mt, T(0), k)
		// append(cur, value) into a fresh array
		one := x.sliceFromVals(st, types.Typ[types.String], []*Val{a[2]})
		et := types.Typ[types.String]
		r := x.newRef(st, "hdr")
		n := tArith("+", cur.F[2].T, intLit(1))
		for _, lf := range leavesOf(et) {
			key := sliceKey(et, lf.Path)
			h := x.heapGet(st, key, arr(SInt, arr(SInt, lf.S)))
			nw := x.D.fresh("hdr.elems", arr(SInt, lf.S))
			i := &Term{Op: "i!ha", S: SInt}
			body := tAnd(tImp(tAnd(tCmp(">=", i, intLit(0)), tCmp("<", i, cur.F[2].T)), tEq(tSelect(nw, i), tSelect(tSelect(h, cur.F[0].T), i))),
				tEq(tSelect(nw, cur.F[2].T), tSelect(tSelect(h, one.F[0].T), intLit(0))))
			x.assume(st, tForall([]*Term{i}, body, []*Term{tSelect(nw, i)}))
			x.heapSet(st, key, tStore(h, r, nw))
		}
		x.mapPut(st, mt, T(0), k, &Val{K: VSlice, Typ: mt.Elem(), F: []*Val{scalar(r, nil), scalar(intLit(0), nil), scalar(n, nil)}})
		return unitVal, true, nil
	case "net/http.(Header).Del":
		use()
		mt := c.Args[0].Type().Underlying().(*types.Map)
		x.mapDelete(st, mt, T(0), x.strFn(st, "canon", T(1)))
		return unitVal, true, nil
	case "net/http.(Header).Get":
		use()
		mt := c.Args[0].Type().Underlying().(*types.Map)
		k := x.strFn(st, "canon", T(1))
		v := x.mapGet(st, mt, T(0), k)
		x.assumeMapWF(st, mt, T(0), k)
		x.assume(st, x.typeFacts(v, mt.Elem()))
		first := x.loadElem(st, v.F[0].T, intLit(0), types.Typ[types.String], "", types.Typ[types.String])
		has := tAnd(x.mapHas(st, mt, T(0), k), tCmp(">", v.F[2].T, intLit(0)))
		return str(tIte(has, first.T, strEmpty)), true, nil
	case "net/http.(Header).Values":
		use()
		mt := c.Args[0].Type().Underlying().(*types.Map)
		k := x.strFn(st, "canon", T(1))
		v := x.mapGet(st, mt, T(0), k)
		x.assumeMapWF(st, mt, T(0), k)
		x.assume(st, x.typeFacts(v, mt.Elem()))
		x.assume(st, x.refFacts(st, v, mt.Elem()))
		return v, true, nil
	}
	if strings.HasPrefix(key, "sync/atomic.") {
		use()
		if rt == nil {
			return unitVal, true, nil
		}
		v := x.havocVal(rt, "atomic")
		x.assume(st, x.typeFacts(v, rt))
		return v, true, nil
	}
	return nil, false, nil
}

func (x *Exec) timeEpoch() *Term {
	// time.Time is nanoseconds on one linear timeline; the zero Time is 0 and the Unix epoch is a positive constant offset
	t := x.D.declareConst("time.epoch", SInt)
	x.axiomsOn["epoch"] = true
	return t
}

func (x *Exec) wrapFacts(st *State, c *ssa.CallCommon, e *Term) {
	if len(c.Args) == 0 {
		return
	}
	fc, ok := c.Args[0].(*ssa.Const)
	if !ok || fc.Value == nil || !strings.Contains(fc.Value.ExactString(), "%w") {
		return
	}
	// variadic args: find stores of error-typed values into the varargs array
	if len(c.Args) < 2 {
		return
	}
	sl, ok := c.Args[1].(*ssa.Slice)
	if !ok {
		return
	}
	al, ok := sl.X.(*ssa.Alloc)
	if !ok || al.Referrers() == nil {
		return
	}
	for _, r := range *al.Referrers() {
		ia, ok := r.(*ssa.IndexAddr)
		if !ok || ia.Referrers() == nil {
			continue
		}
		for _, r2 := range *ia.Referrers() {
			s, ok := r2.(*ssa.Store)
			if !ok {
				continue
			}
			mi, ok := s.Val.(*ssa.MakeInterface)
			if ok && isErrorType(mi.X.Type()) {
				if ev, ok := x.regs[mi.X]; ok && ev.K == VScalar && ev.T.S == SErr {
					// Is(result, t) <== Is(wrapped, t)
					t := &Term{Op: "t!w", S: SErr}
					x.assume(st, tForall([]*Term{t}, tImp(x.errIs(st, ev.T, t), x.errIs(st, e, t)), []*Term{x.errIs(st, e, t)}))
				}
			}
			if ci, ok := s.Val.(*ssa.ChangeInterface); ok && isErrorType(ci.X.Type()) {
				if ev, ok := x.regs[ci.X]; ok && ev.K == VScalar && ev.T.S == SErr {
					t := &Term{Op: "t!w", S: SErr}
					x.assume(st, tForall([]*Term{t}, tImp(x.errIs(st, ev.T, t), x.errIs(st, e, t)), []*Term{x.errIs(st, e, t)}))
				}
			}
		}
	}
}

// lockOp models Lock/Unlock on a monitor lock.
func (x *Exec) lockOp(st *State, c *ssa.CallCommon, acquire, write bool, pos token.Pos) *Val {
	mon := x.lockMonitor(c)
	if acquire {
		x.nLock++
		// symbolic counters of critical sections entered (all locks / write locks)

		if mon != nil {
			// entering the monitor: nothing is known about guarded state except the invariant
			preLock := st.clone()
			x.havocAllHeap(st, "lock")
			if x.fc != nil {
				// caller-owned memory named `stable` keeps its content (assumption, listed in the evidence)
				for _, se := range x.fc.Stable {
					sctx := x.specCtx(preLock, nil)
					sctx.locals, sctx.inBody = true, true // thread-local objects held in locals may be named
					err := x.frameAllow(sctx, se, func(key string, whole bool, ref *Term) {
						s, ok := x.heapSort[key]
						if !ok {
							return
						}
						prev := x.heapGet(preLock, key, s)
						if whole {
							st.heap[key] = prev
						} else {
							st.heap[key] = tStore(x.heapGet(st, key, s), ref, tSelect(prev, ref))
						}
					})
					if err != nil {
						// a name that is not in scope at this lock site (a local declared later): nothing to keep stable here
						continue
					}
					x.assumptions["memory owned by this call (caller-owned arguments, objects it allocated and has not published) is not mutated by other goroutines: "+se.String()+" in "+x.key] = true
				}
			}
			snapSt := st.clone()
			st.snap = snapSt
			ctx := x.specCtx(st, nil)
			recv := x.lockOwner(st, c)
			for _, inv := range mon.Inv {
				t, err := x.specBool(ctx.with(map[string]*Val{"self": recv}), inv.E)
				if err != nil {
					x.errorf("%s: monitor invariant: %v", inv.Where, err)
					continue
				}
				x.assume(st, t)
			}
			snap2 := st.clone()
			st.snap = snap2
		}
		st.ghost["$heldR"] = scalar(tTrue, nil)
		if write {
			st.ghost["$heldW"] = scalar(tTrue, nil)
		}
		// counters of critical sections entered (after the snapshot, so old() sees the value before this section)
		if cur, ok := st.ghost["lockSections"]; ok {
			st.ghost["lockSections"] = intVal(tArith("+", cur.T, intLit(1)))
		}
		if write {
			if cur, ok := st.ghost["writeSections"]; ok {
				st.ghost["writeSections"] = intVal(tArith("+", cur.T, intLit(1)))
			}
		}
		return unitVal
	}
	x.nUnlock++
	if mon != nil {
		ctx := x.specCtx(st, nil)
		recv := x.lockOwner(st, c)
		for _, inv := range mon.Inv {
			t, err := x.specBool(ctx.with(map[string]*Val{"self": recv}), inv.E)
			if err != nil {
				x.errorf("%s: monitor invariant: %v", inv.Where, err)
				continue
			}
			if write {
				x.oblige(st, "monitor-inv", inv.Label, t, pos, inv.Src, inv.Tags)
			}
		}
	}
	st.ghost["$heldR"] = scalar(tFalse, nil)
	st.ghost["$heldW"] = scalar(tFalse, nil)
	return unitVal
}

// lockMonitor finds the monitor declaration for the struct owning the lock field.
func (x *Exec) lockMonitor(c *ssa.CallCommon) *Monitor {
	if len(c.Args) == 0 {
		return nil
	}
	fa, ok := c.Args[0].(*ssa.FieldAddr)
	if !ok {
		return nil
	}
	pt := fa.X.Type().Underlying().(*types.Pointer).Elem()
	n, ok := types.Unalias(pt).(*types.Named)
	if !ok || n.Obj().Pkg() == nil {
		return nil
	}
	mon := x.C.Monitors[n.Obj().Pkg().Name()+"."+n.Obj().Name()]
	if mon == nil {
		return nil
	}
	if pt.Underlying().(*types.Struct).Field(fa.Field).Name() != mon.Lock {
		return nil
	}
	return mon
}

func (x *Exec) lockOwner(st *State, c *ssa.CallCommon) *Val {
	fa := c.Args[0].(*ssa.FieldAddr)
	v := x.val(st, fa.X)
	return retype(v, fa.X.Type())
}


// varargValues returns the pre-boxing SSA values stored into the variadic argument array, in index order.
func varargValues(v ssa.Value) ([]ssa.Value, bool) {
	sl, ok := v.(*ssa.Slice)
	if !ok {
		if c, isC := v.(*ssa.Const); isC && c.Value == nil {
			return nil, true // no variadic arguments
		}
		return nil, false
	}
	al, ok := sl.X.(*ssa.Alloc)
	if !ok || al.Referrers() == nil {
		return nil, false
	}
	at, ok := al.Type().(*types.Pointer).Elem().Underlying().(*types.Array)
	if !ok {
		return nil, false
	}
	out := make([]ssa.Value, at.Len())
	for _, r := range *al.Referrers() {
		ia, ok := r.(*ssa.IndexAddr)
		if !ok || ia.Referrers() == nil {
			continue
		}
		ic, ok := ia.Index.(*ssa.Const)
		if !ok {
			return nil, false
		}
		idx := int(ic.Int64())
		for _, r2 := range *ia.Referrers() {
			if s, ok := r2.(*ssa.Store); ok && idx >= 0 && idx < len(out) {
				if mi, ok := s.Val.(*ssa.MakeInterface); ok {
					out[idx] = mi.X
				} else {
					out[idx] = s.Val
				}
			}
		}
	}
	for _, o := range out {
		if o == nil {
			return nil, false
		}
	}
	return out, true
}

// sprintfModel: fmt.Sprintf with a constant format. When every verb is %s applied to string-sorted arguments the
// result is the concatenation of the literal pieces and the arguments; otherwise an uninterpreted function of
// the format and the (scalar) arguments.
func (x *Exec) sprintfModel(st *State, c *ssa.CallCommon) (*Val, bool) {
	if len(c.Args) != 2 {
		return nil, false
	}
	fc, ok := c.Args[0].(*ssa.Const)
	if !ok || fc.Value == nil {
		return nil, false
	}
	format := constantString(fc)
	vals, ok := varargValues(c.Args[1])
	if !ok {
		return nil, false
	}
	var terms []*Term
	for _, v := range vals {
		r, ok := x.regs[v]
		if !ok {
			if cst, isC := v.(*ssa.Const); isC {
				r = x.constVal(cst)
			} else {
				return nil, false
			}
		}
		if r.K != VScalar {
			return nil, false
		}
		terms = append(terms, r.T)
	}
	// split format
	var pieces []string
	var verbs []byte
	cur := ""
	for i := 0; i < len(format); i++ {
		if format[i] == '%' && i+1 < len(format) {
			if format[i+1] == '%' {
				cur += "%"
				i++
				continue
			}
			pieces = append(pieces, cur)
			cur = ""
			verbs = append(verbs, format[i+1])
			i++
			continue
		}
		cur += string(format[i])
	}
	pieces = append(pieces, cur)
	if len(verbs) != len(terms) {
		return nil, false
	}
	allS := true
	for i, vb := range verbs {
		if vb != 's' || terms[i].S != SStr {
			allS = false
		}
	}
	if allS {
		t := x.strLit(pieces[0])
		for i := range verbs {
			t = x.strConcat(st, t, terms[i])
			if pieces[i+1] != "" {
				t = x.strConcat(st, t, x.strLit(pieces[i+1]))
			}
		}
		return scalar(t, types.Typ[types.String]), true
	}
	args := append([]*Term{x.strLit(format)}, terms...)
	sig := "sprintf"
	for _, a := range args[1:] {
		sig += "_" + string(a.S)
	}
	return scalar(x.ufApp(sig, SStr, args...), types.Typ[types.String]), true
}

func constantString(c *ssa.Const) string {
	return constant.StringVal(c.Value)
}


// sortedFact: when the less-closure has a contract `ensures result <==> E(i, j)`, the sorted slice satisfies
// forall i < j < n: !E(j, i) (no later element is strictly less than an earlier one).
func (x *Exec) sortedFact(st *State, c *ssa.CallCommon, lessVal *Val, n *Term) {
	if lessVal == nil || lessVal.K != VClosure || lessVal.Clo.Fn == nil {
		return
	}
	key := x.P.funcKey(lessVal.Clo.Fn)
	fc := x.C.Funcs[key]
	if fc == nil || len(fc.Ensures) == 0 {
		x.assumptions["sort.Slice: the less closure "+key+" has no contract, so the resulting order is unconstrained"] = true
		return
	}
	f := lessVal.Clo.Fn
	if len(f.Params) != 2 {
		return
	}
	var body *Expr
	for _, e := range fc.Ensures {
		if e.E.Kind == "binary" && e.E.Name == "<==>" && e.E.Args[0].Kind == "ident" && e.E.Args[0].Name == "result" {
			body = e.E.Args[1]
		}
	}
	if body == nil {
		return
	}
	x.bvN++
	bi := &Term{Op: fmt.Sprintf("i!srt%d", x.bvN), S: SInt}
	bj := &Term{Op: fmt.Sprintf("j!srt%d", x.bvN), S: SInt}
	vars := map[string]*Val{f.Params[0].Name(): intVal(bj), f.Params[1].Name(): intVal(bi)} // E(j, i)
	for k, fv := range f.FreeVars {
		if k < len(lessVal.Clo.Bindings) {
			b := lessVal.Clo.Bindings[k]
			if b.K == VPath && b.Path.Cell != nil {
				vars[fv.Name()] = retypeIfNil(x.loadPath(st, b.Path), fv.Type().(*types.Pointer).Elem())
			}
		}
	}
	ctx := &SpecCtx{st: st, old: st, vars: vars, pkg: fc.Pkg, locals: false, quantDepth: 1}
	t, err := x.specBool(ctx, body)
	if err != nil {
		x.assumptions["sort.Slice: could not use the contract of "+key+": "+err.Error()] = true
		return
	}
	x.usedContracts[key] = true
	x.assume(st, tForall([]*Term{bi, bj}, tImp(tAnd(tCmp("<=", intLit(0), bi), tCmp("<", bi, bj), tCmp("<", bj, n)), tNot(t))))
	x.assumptions["sort.Slice returns the slice sorted w.r.t. its less function (assumed; the less closure's contract is proved)"] = true
}

// isStdBase64 reports whether the receiver of a base64 method call is the package variable base64.StdEncoding.
func isStdBase64(c *ssa.CallCommon) bool {
	if len(c.Args) == 0 {
		return false
	}
	u, ok := c.Args[0].(*ssa.UnOp)
	if !ok {
		return false
	}
	g, ok := u.X.(*ssa.Global)
	return ok && g.Name() == "StdEncoding" && g.Pkg != nil && g.Pkg.Pkg.Path() == "encoding/base64"
}

// unixNanoTerm: nanoseconds since the Unix epoch as an int64. Exact inside the int64 range (years 1678..2262); outside it
// the Go result is undefined ("overflows"), modelled as an unknown but deterministic function of the instant, so that a
// round trip through UnixNano is the identity only for representable instants.
func (x *Exec) unixNanoTerm(t *Term) *Term {
	d := tArith("-", t, x.timeEpoch())
	inr := tAnd(tCmp(">=", d, intLitStr("-9223372036854775808")), tCmp("<=", d, intLitStr("9223372036854775807")))
	return tIte(inr, d, x.ufApp("unixNanoWrapped", SInt, t))
}
