package main

import (
	"fmt"
	"go/types"

	"golang.org/x/tools/go/ssa"
)

// addrRoot classifies the location an address value denotes, statically.
// returns (cell, heapKeys, all)
func (x *Exec) addrWrites(addr ssa.Value, li *loopInfo) {
	switch a := addr.(type) {
	case *ssa.Alloc:
		et := a.Type().(*types.Pointer).Elem()
		if k, _ := classify(et); a.Heap && k == TStruct {
			for _, lf := range leavesOf(et) {
				li.heap[fieldKey(et, lf.Path)] = true
			}
			return
		}
		li.cells[a] = true
	case *ssa.FieldAddr:
		// find root
		var sel []int
		cur := ssa.Value(a)
		for {
			fa, ok := cur.(*ssa.FieldAddr)
			if !ok {
				break
			}
			sel = append([]int{fa.Field}, sel...)
			cur = fa.X
		}
		switch r := cur.(type) {
		case *ssa.Alloc:
			et := r.Type().(*types.Pointer).Elem()
			if k, _ := classify(et); r.Heap && k == TStruct {
				prefix, lt := leafPrefix(et, sel)
				for _, lf := range leavesUnder(lt, prefix) {
					li.heap[fieldKey(et, lf)] = true
				}
				return
			}
			li.cells[r] = true
			return
		case *ssa.IndexAddr:
			if sl, ok := r.X.Type().Underlying().(*types.Slice); ok {
				prefix, lt := leafPrefix(sl.Elem(), sel)
				for _, lf := range leavesUnder(lt, prefix) {
					li.heap[sliceKey(sl.Elem(), lf)] = true
				}
				return
			}
			if pa, ok := r.X.Type().Underlying().(*types.Pointer); ok {
				if at, ok := pa.Elem().Underlying().(*types.Array); ok {
					prefix, lt := leafPrefix(at.Elem(), sel)
					for _, lf := range leavesUnder(lt, prefix) {
						li.heap[sliceKey(at.Elem(), lf)] = true
					}
					return
				}
			}
			x.addrWrites(r.X, li)
			return
		}
		pt, ok := cur.Type().Underlying().(*types.Pointer)
		if !ok {
			li.heapAll = true
			return
		}
		prefix, lt := leafPrefix(pt.Elem(), sel)
		for _, lf := range leavesUnder(lt, prefix) {
			li.heap[objKey(pt.Elem(), lf)] = true
		}
	case *ssa.IndexAddr:
		if sl, ok := a.X.Type().Underlying().(*types.Slice); ok {
			if k, _ := classify(sl); k == TScalar {
				return // []byte element: not modelled
			}
			for _, lf := range leavesOf(sl.Elem()) {
				li.heap[sliceKey(sl.Elem(), lf.Path)] = true
			}
			return
		}
		if pa, ok := a.X.Type().Underlying().(*types.Pointer); ok {
			if at, ok := pa.Elem().Underlying().(*types.Array); ok && !isByte(at.Elem()) {
				for _, lf := range leavesOf(at.Elem()) {
					li.heap[sliceKey(at.Elem(), lf.Path)] = true
				}
				return
			}
		}
		x.addrWrites(a.X, li)
	case *ssa.Global:
	default:
		// pointer value (parameter, loaded pointer, call result)
		if pt, ok := addr.Type().Underlying().(*types.Pointer); ok {
			for _, lf := range leavesOf(pt.Elem()) {
				li.heap[objKey(pt.Elem(), lf.Path)] = true
			}
			return
		}
		li.heapAll = true
	}
}

func leavesUnder(t types.Type, prefix string) []string {
	var out []string
	var ls []Leaf
	collectLeaves(t, prefix, &ls, 0)
	for _, l := range ls {
		out = append(out, l.Path)
	}
	return out
}

func mapKeys(mt *types.Map) []string {
	out := []string{mapDomKey(mt), mapLenKey(mt)}
	for _, lf := range leavesOf(mt.Elem()) {
		out = append(out, mapValKey(mt, lf.Path))
	}
	return out
}

// computeWriteSet fills the loop's write set from the instructions of its blocks.
func (x *Exec) computeWriteSet(li *loopInfo) {
	for b := range li.blocks {
		for _, in := range b.Instrs {
			switch in := in.(type) {
			case *ssa.Store:
				x.addrWrites(in.Addr, li)
			case *ssa.MapUpdate:
				for _, k := range mapKeys(in.Map.Type().Underlying().(*types.Map)) {
					li.heap[k] = true
				}
			case *ssa.Next:
				if r, ok := in.Iter.(*ssa.Range); ok {
					li.iters[r] = true
				}
			case *ssa.Alloc:
				// allocation in the loop: alloc set changes
				if in.Heap {
					li.heap[allocKey] = true
				}
			case *ssa.MakeMap:
				li.heap[allocKey] = true
				for _, k := range mapKeys(in.Type().Underlying().(*types.Map)) {
					li.heap[k] = true
				}
			case *ssa.MakeSlice:
				li.heap[allocKey] = true
				if sl, ok := in.Type().Underlying().(*types.Slice); ok {
					if k, _ := classify(sl); k != TScalar {
						for _, lf := range leavesOf(sl.Elem()) {
							li.heap[sliceKey(sl.Elem(), lf.Path)] = true
						}
					}
				}
			case ssa.CallInstruction:
				x.callWrites(in.Common(), li)
			}
		}
	}
	if li.spec != nil {
		for _, g := range li.spec.Ghosts {
			li.ghosts["lg:"+g.Name] = true
		}
	}
}

// callWrites adds the static write footprint of a call.
func (x *Exec) callWrites(c *ssa.CallCommon, li *loopInfo) {
	if b, ok := c.Value.(*ssa.Builtin); ok {
		switch b.Name() {
		case "delete":
			for _, k := range mapKeys(c.Args[0].Type().Underlying().(*types.Map)) {
				li.heap[k] = true
			}
		case "append":
			li.heap[allocKey] = true
			if sl, ok := c.Args[0].Type().Underlying().(*types.Slice); ok {
				if k, _ := classify(sl); k != TScalar {
					for _, lf := range leavesOf(sl.Elem()) {
						li.heap[sliceKey(sl.Elem(), lf.Path)] = true
					}
				}
			}
		case "copy":
			if sl, ok := c.Args[0].Type().Underlying().(*types.Slice); ok {
				if k, _ := classify(sl); k != TScalar {
					for _, lf := range leavesOf(sl.Elem()) {
						li.heap[sliceKey(sl.Elem(), lf.Path)] = true
					}
				}
			}
		}
		return
	}
	key, fc := x.calleeContract(c)
	if fc == nil {
		if x.isPureExtern(key, c) {
			return
		}
		// unknown callee: pointer-typed arguments' cells and the whole heap
		for _, a := range c.Args {
			if al, ok := rootAlloc(a); ok {
				li.cells[al] = true
			}
		}
		li.heapAll = true
		return
	}
	if fc.ModAll {
		li.heapAll = true
	}
	for _, m := range fc.Modifies {
		keys, ghost, err := x.modKeysStatic(m, fc, c)
		if err != nil {
			li.heapAll = true
			continue
		}
		for _, k := range keys {
			li.heap[k] = true
		}
		if ghost != "" {
			li.ghosts[ghost] = true
		}
	}
	// pointer-to-local arguments may be written by the callee if it says so (out params)
	for _, a := range c.Args {
		if al, ok := rootAlloc(a); ok {
			li.cells[al] = true
		}
	}
}

func rootAlloc(v ssa.Value) (*ssa.Alloc, bool) {
	for {
		switch a := v.(type) {
		case *ssa.Alloc:
			return a, !a.Heap || true
		case *ssa.FieldAddr:
			v = a.X
		case *ssa.IndexAddr:
			v = a.X
		default:
			return nil, false
		}
	}
}

func (x *Exec) enterLoop(li *loopInfo, st *State) error {
	x.computeWriteSet(li)
	// nested loops' write sets are included because li.blocks contains their blocks
	ord := li.ord
	// loop ghosts: initial values
	if li.spec != nil {
		for _, g := range li.spec.Ghosts {
			ctx := x.specCtx(st, li)
			v, err := x.specEval(ctx, g.Init)
			if err != nil {
				return fmt.Errorf("loop %d ghost %s init: %v", ord, g.Name, err)
			}
			ty, err := x.resolveType(g.Type, x.pkg)
			if err != nil {
				return err
			}
			st.ghost["lg:"+g.Name] = x.coerceSpec(v, ty)
		}
		for _, c := range li.spec.Invs {
			t, err := x.specBool(x.specCtx(st, li), c.E)
			if err != nil {
				return fmt.Errorf("%s: loop %d invariant: %v", c.Where, ord, err)
			}
			x.oblige(st, fmt.Sprintf("loop%d-entry", ord), c.Label, t, li.header.Instrs[0].Pos(), c.Src, c.Tags)
		}
	}
	li.preSt = st.clone()
	// havoc the write set
	for a := range li.cells {
		if cur, ok := st.cells[a]; ok && isSMTVal(cur) {
			et := a.Type().(*types.Pointer).Elem()
			if cur.K == VScalar && cur.T.S == SAny && cur.Typ != nil {
				continue
			}
			nv := x.havocVal(et, "loop."+a.Comment)
			x.assume(st, x.typeFacts(nv, et))
			st.cells[a] = nv
		}
	}
	if li.heapAll {
		x.havocAllHeap(st, "loop")
	} else {
		for _, k := range sortedKeys(li.heap) {
			x.havocHeapKey(st, k, "loop")
		}
	}
	for r := range li.iters {
		if d, ok := st.iters[r]; ok && !d.isStr {
			nd := *d
			nd.visited = x.D.fresh("visited", d.visited.S)
			st.iters[r] = &nd
		}
	}
	for g := range li.ghosts {
		if cur, ok := st.ghost[g]; ok {
			st.ghost[g] = x.havocLike(cur, "loop."+g)
		}
	}
	if li.spec != nil {
		for _, c := range li.spec.Invs {
			t, err := x.specBool(x.specCtx(st, li), c.E)
			if err != nil {
				return fmt.Errorf("%s: loop %d invariant: %v", c.Where, ord, err)
			}
			x.assume(st, t)
		}
		if li.spec.Decreases != nil {
			v, err := x.specEval(x.specCtx(st, li), li.spec.Decreases)
			if err != nil {
				return err
			}
			li.dec0 = v.T
		}
	}
	return nil
}

func (x *Exec) havocLike(v *Val, hint string) *Val {
	switch v.K {
	case VScalar:
		return &Val{K: VScalar, T: x.D.fresh("hv."+hint, v.T.S), Typ: v.Typ, SetOf: v.SetOf}
	case VUnit:
		return v
	case VStruct, VTuple, VSlice, VFloat:
		out := &Val{K: v.K, Typ: v.Typ}
		for _, f := range v.F {
			out.F = append(out.F, x.havocLike(f, hint))
		}
		return out
	}
	return v
}

func (x *Exec) havocHeapKey(st *State, k string, hint string) {
	s, ok := x.heapSort[k]
	if !ok {
		return // never materialised in any pass: nothing reads it
	}
	if k == allocKey {
		old := x.heapGet(st, k, s)
		nw := x.D.fresh("alloc", s)
		r := &Term{Op: "r!a", S: SInt}
		x.assume(st, tForall([]*Term{r}, tImp(tSelect(old, r), tSelect(nw, r)), []*Term{tSelect(old, r)}))
		st.heap[k] = nw
		return
	}
	st.heap[k] = x.D.fresh("H."+k+"."+hint, s)
}

func (x *Exec) havocAllHeap(st *State, hint string) {
	for _, k := range sortedKeys(x.heapSort) {
		x.havocHeapKey(st, k, hint)
	}
}

func (x *Exec) closeLoop(li *loopInfo, st *State, cond *Term) {
	if li == nil || st.dead {
		return
	}
	s := st.clone()
	s.reach = cond
	if li.spec == nil {
		return
	}
	// ghost steps (evaluated in the end-of-body state, simultaneously)
	newG := map[string]*Val{}
	for _, g := range li.spec.Ghosts {
		v, err := x.specEval(x.specCtx(s, li), g.Step)
		if err != nil {
			x.errorf("loop %d ghost %s step: %v", li.ord, g.Name, err)
			continue
		}
		ty, _ := x.resolveType(g.Type, x.pkg)
		newG["lg:"+g.Name] = x.coerceSpec(v, ty)
	}
	for k, v := range newG {
		s.ghost[k] = v
	}
	for _, c := range li.spec.Invs {
		t, err := x.specBool(x.specCtx(s, li), c.E)
		if err != nil {
			x.errorf("%s: loop %d invariant: %v", c.Where, li.ord, err)
			continue
		}
		x.oblige(s, fmt.Sprintf("loop%d-back", li.ord), c.Label, t, li.header.Instrs[0].Pos(), c.Src, c.Tags)
	}
	if li.spec.Decreases != nil && li.dec0 != nil {
		v, err := x.specEval(x.specCtx(s, li), li.spec.Decreases)
		if err == nil {
			x.oblige(s, fmt.Sprintf("loop%d-decreases", li.ord), "", tAnd(tCmp(">=", li.dec0, intLit(0)), tCmp("<", v.T, li.dec0)), li.header.Instrs[0].Pos(), "variant decreases and is bounded below", nil)
		}
	}
}
