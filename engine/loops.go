package main

import (
	"fmt"
	"go/types"
	"strings"

	"golang.org/x/tools/go/ssa"
)

// addrRoot classifies the location an address value denotes, statically.
// returns (cell, heapKeys, all)
func (x *Exec) addrWrites(addr ssa.Value, li *loopInfo) {
	switch a := addr.(type) {
	case *ssa.Alloc:
		et := a.Type().(*types.Pointer).Elem()
		if k, _ := classify(et); a.Heap && k == TStruct {
			for _, lf := range leavesOf(et) {
				if li.blocks[a.Block()] {
					// object allocated in this iteration: only a fresh object is written
					li.fresh[fieldKey(et, lf.Path)] = true
				} else {
					li.heap[fieldKey(et, lf.Path)] = true
				}
			}
			return
		}
		li.cells[a] = true
	case *ssa.FieldAddr:
		// find root
		var sel []int
		cur := ssa.Value(a)
		for {
			fa, ok := cur.(*ssa.FieldAddr)
			if !ok {
				break
			}
			sel = append([]int{fa.Field}, sel...)
			cur = fa.X
		}
		switch r := cur.(type) {
		case *ssa.Alloc:
			et := r.Type().(*types.Pointer).Elem()
			if k, _ := classify(et); r.Heap && k == TStruct {
				prefix, lt := leafPrefix(et, sel)
				for _, lf := range leavesUnder(lt, prefix) {
					if li.blocks[r.Block()] {
						li.fresh[fieldKey(et, lf)] = true
					} else {
						li.heap[fieldKey(et, lf)] = true
					}
				}
				return
			}
			li.cells[r] = true
			return
		case *ssa.IndexAddr:
			if sl, ok := r.X.Type().Underlying().(*types.Slice); ok {
				prefix, lt := leafPrefix(sl.Elem(), sel)
				for _, lf := range leavesUnder(lt, prefix) {
					li.heap[sliceKey(sl.Elem(), lf)] = true
				}
				return
			}
			if pa, ok := r.X.Type().Underlying().(*types.Pointer); ok {
				if at, ok := pa.Elem().Underlying().(*types.Array); ok {
					inLoopAlloc := false
					if al, ok := r.X.(*ssa.Alloc); ok && li.blocks[al.Block()] {
						inLoopAlloc = true
					}
					prefix, lt := leafPrefix(at.Elem(), sel)
					for _, lf := range leavesUnder(lt, prefix) {
						if inLoopAlloc {
							li.fresh[sliceKey(at.Elem(), lf)] = true
						} else {
							li.heap[sliceKey(at.Elem(), lf)] = true
						}
					}
					return
				}
			}
			x.addrWrites(r.X, li)
			return
		}
		pt, ok := cur.Type().Underlying().(*types.Pointer)
		if !ok {
			li.heapAll = true
			return
		}
		prefix, lt := leafPrefix(pt.Elem(), sel)
		var keys []string
		for _, lf := range leavesUnder(lt, prefix) {
			keys = append(keys, objKey(pt.Elem(), lf))
		}
		// precise (this object only) if the pointer turns out to be loop-invariant, type-wide otherwise
		li.fieldSts = append(li.fieldSts, fieldStore{cur, keys})
	case *ssa.IndexAddr:
		if sl, ok := a.X.Type().Underlying().(*types.Slice); ok {
			if k, _ := classify(sl); k == TScalar {
				return // []byte element: not modelled
			}
			for _, lf := range leavesOf(sl.Elem()) {
				li.heap[sliceKey(sl.Elem(), lf.Path)] = true
			}
			return
		}
		if pa, ok := a.X.Type().Underlying().(*types.Pointer); ok {
			if at, ok := pa.Elem().Underlying().(*types.Array); ok && !isByte(at.Elem()) {
				inLoopAlloc := false
				if al, ok := a.X.(*ssa.Alloc); ok && li.blocks[al.Block()] {
					inLoopAlloc = true // array allocated in this iteration: only a fresh object is written
				}
				for _, lf := range leavesOf(at.Elem()) {
					if inLoopAlloc {
						li.fresh[sliceKey(at.Elem(), lf.Path)] = true
					} else {
						li.heap[sliceKey(at.Elem(), lf.Path)] = true
					}
				}
				return
			}
		}
		x.addrWrites(a.X, li)
	case *ssa.Global:
	default:
		// pointer value (parameter, loaded pointer, call result)
		if pt, ok := addr.Type().Underlying().(*types.Pointer); ok {
			for _, lf := range leavesOf(pt.Elem()) {
				li.heap[objKey(pt.Elem(), lf.Path)] = true
			}
			return
		}
		li.heapAll = true
	}
}

func leavesUnder(t types.Type, prefix string) []string {
	var out []string
	var ls []Leaf
	collectLeaves(t, prefix, &ls, 0)
	for _, l := range ls {
		out = append(out, l.Path)
	}
	return out
}

func mapKeys(mt *types.Map) []string {
	out := []string{mapDomKey(mt), mapLenKey(mt)}
	for _, lf := range leavesOf(mt.Elem()) {
		out = append(out, mapValKey(mt, lf.Path))
	}
	return out
}

// computeWriteSet fills the loop's write set from the instructions of its blocks.
func (x *Exec) computeWriteSet(li *loopInfo) {
	for b := range li.blocks {
		for _, in := range b.Instrs {
			switch in := in.(type) {
			case *ssa.Store:
				x.addrWrites(in.Addr, li)
			case *ssa.MapUpdate:
				li.mapOps = append(li.mapOps, mapOp{in.Map, in.Map.Type().Underlying().(*types.Map)})
			case *ssa.Next:
				if r, ok := in.Iter.(*ssa.Range); ok {
					li.iters[r] = true
				}
			case *ssa.Alloc:
				// allocation in the loop: alloc set changes; initialisation writes only the fresh object
				et := in.Type().(*types.Pointer).Elem()
				if k, _ := classify(et); in.Heap && k == TStruct {
					li.heap[allocKey] = true
					for _, lf := range leavesOf(et) {
						li.fresh[fieldKey(et, lf.Path)] = true
					}
				}
				if at, ok := et.Underlying().(*types.Array); ok && !isByte(at.Elem()) {
					li.heap[allocKey] = true
					for _, lf := range leavesOf(at.Elem()) {
						li.fresh[sliceKey(at.Elem(), lf.Path)] = true
					}
				}
			case *ssa.MakeMap:
				li.heap[allocKey] = true
				for _, k := range mapKeys(in.Type().Underlying().(*types.Map)) {
					li.fresh[k] = true
				}
			case *ssa.MakeSlice:
				li.heap[allocKey] = true
				if sl, ok := in.Type().Underlying().(*types.Slice); ok {
					if k, _ := classify(sl); k != TScalar {
						for _, lf := range leavesOf(sl.Elem()) {
							li.fresh[sliceKey(sl.Elem(), lf.Path)] = true
						}
					}
				}
			case ssa.CallInstruction:
				x.callWrites(in.Common(), li)
			}
		}
	}
	if li.spec != nil {
		for _, g := range li.spec.Ghosts {
			li.ghosts["lg:"+g.Name] = true
		}
	}
}

// callWrites adds the static write footprint of a call.
func (x *Exec) callWrites(c *ssa.CallCommon, li *loopInfo) {
	for _, a := range c.Args {
		// boxed addresses of locals (rows.Scan(&a, &b)): the callee may write them
		if mi, ok := a.(*ssa.MakeInterface); ok {
			if al, ok2 := rootAlloc(mi.X); ok2 {
				li.cells[al] = true
			}
		}
		if sl, ok := a.(*ssa.Slice); ok {
			if arr, ok2 := sl.X.(*ssa.Alloc); ok2 && arr.Referrers() != nil {
				for _, r := range *arr.Referrers() {
					if ia, ok3 := r.(*ssa.IndexAddr); ok3 && ia.Referrers() != nil {
						for _, r2 := range *ia.Referrers() {
							if st, ok4 := r2.(*ssa.Store); ok4 {
								if mi, ok5 := st.Val.(*ssa.MakeInterface); ok5 {
									if al, ok6 := rootAlloc(mi.X); ok6 {
										li.cells[al] = true
									}
								}
							}
						}
					}
				}
			}
		}
	}
	if b, ok := c.Value.(*ssa.Builtin); ok {
		switch b.Name() {
		case "delete":
			li.mapOps = append(li.mapOps, mapOp{c.Args[0], c.Args[0].Type().Underlying().(*types.Map)})
		case "append":
			li.heap[allocKey] = true
			if sl, ok := c.Args[0].Type().Underlying().(*types.Slice); ok {
				if k, _ := classify(sl); k != TScalar {
					for _, lf := range leavesOf(sl.Elem()) {
						li.fresh[sliceKey(sl.Elem(), lf.Path)] = true
					}
				}
			}
		case "copy":
			if sl, ok := c.Args[0].Type().Underlying().(*types.Slice); ok {
				if k, _ := classify(sl); k != TScalar {
					for _, lf := range leavesOf(sl.Elem()) {
						li.heap[sliceKey(sl.Elem(), lf.Path)] = true
					}
				}
			}
		}
		return
	}
	key, fc := x.calleeContract(c)
	if fc == nil {
		switch key {
		case "sort.Slice", "sort.SliceStable":
			if mi, ok := c.Args[0].(*ssa.MakeInterface); ok {
				if sl, ok := mi.X.Type().Underlying().(*types.Slice); ok {
					for _, lf := range leavesOf(sl.Elem()) {
						li.heap[sliceKey(sl.Elem(), lf.Path)] = true
					}
				}
			}
			return
		case "net/http.(Header).Set", "net/http.(Header).Add", "net/http.(Header).Del":
			// modelled as map writes on the receiver (plus fresh value slices)
			li.mapOps = append(li.mapOps, mapOp{c.Args[0], c.Args[0].Type().Underlying().(*types.Map)})
			li.heap[allocKey] = true
			li.fresh[sliceKey(types.Typ[types.String], "")] = true
			return
		}
		if x.isPureExtern(key, c) {
			return
		}
		// unknown callee: pointer-typed arguments' cells and the whole heap
		for _, a := range c.Args {
			if al, ok := rootAlloc(a); ok {
				li.cells[al] = true
			}
		}
		li.heapAll = true
		return
	}
	if fc.ModAll {
		li.heapAll = true
	}
	for g := range x.ghostsMentioned(fc) {
		li.ghosts[g] = true
	}
	for _, m := range fc.Modifies {
		if m.Kind == "ident" {
			if _, ok := x.C.Ghosts[m.Name]; ok {
				li.ghosts[m.Name] = true
				continue
			}
		}
		li.callMods = append(li.callMods, callMod{c, fc, m})
	}
	// pointer-to-local arguments may be written by the callee if it says so (out params)
	for _, a := range c.Args {
		if al, ok := rootAlloc(a); ok {
			li.cells[al] = true
		}
	}
}

func rootAlloc(v ssa.Value) (*ssa.Alloc, bool) {
	for {
		switch a := v.(type) {
		case *ssa.Alloc:
			return a, !a.Heap || true
		case *ssa.FieldAddr:
			v = a.X
		case *ssa.IndexAddr:
			v = a.X
		default:
			return nil, false
		}
	}
}

func (x *Exec) enterLoop(li *loopInfo, st *State) error {
	x.computeWriteSet(li)
	// nested loops' write sets are included because li.blocks contains their blocks
	ord := li.ord
	li.preSt = st.clone()
	// loop ghosts: initial values
	if li.spec != nil {
		for _, g := range li.spec.Ghosts {
			ctx := x.specCtx(st, li)
			ty, err := x.resolveType(g.Type, x.pkg)
			if err != nil {
				return err
			}
			if g.Init.Kind == "ident" && g.Init.Name == "_" {
				st.ghost["lg:"+g.Name] = x.havocSpec(ty, "lg."+g.Name) // arbitrary initial value
				continue
			}
			v, err := x.specEval(ctx, g.Init)
			if err != nil {
				return fmt.Errorf("loop %d ghost %s init: %v", ord, g.Name, err)
			}
			st.ghost["lg:"+g.Name] = x.coerceSpec(v, ty)
		}
		for _, c := range li.spec.Invs {
			t, err := x.specBool(x.specCtx(st, li), c.E)
			if err != nil {
				return fmt.Errorf("%s: loop %d invariant: %v", c.Where, ord, err)
			}
			x.oblige(st, fmt.Sprintf("loop%d-entry", ord), c.Label, t, li.header.Instrs[0].Pos(), c.Src, c.Tags)
		}
	}
	li.preSt = st.clone()
	// map writes and callee modifies: precise when the written object is loop-invariant, type-wide otherwise
	var preciseMaps map[string][]*Term
	for iter := 0; iter < 10; iter++ {
		preciseMaps = map[string][]*Term{}
		grew := false
		addWide := func(k string) {
			if !li.heap[k] {
				li.heap[k] = true
				grew = true
			}
		}
		for _, mo := range li.mapOps {
			if ref, ok := x.invariantRef(li.preSt, mo.v, li, 0); ok {
				for _, k := range mapKeys(mo.mt) {
					preciseMaps[k] = append(preciseMaps[k], ref)
				}
			} else {
				for _, k := range mapKeys(mo.mt) {
					addWide(k)
				}
			}
		}
		for _, fs := range li.fieldSts {
			if ref, ok := x.invariantRef(li.preSt, fs.root, li, 0); ok {
				for _, k := range fs.keys {
					preciseMaps[k] = append(preciseMaps[k], ref)
				}
			} else {
				for _, k := range fs.keys {
					addWide(k)
				}
			}
		}
		for _, cm := range li.callMods {
			pairs, ok := x.preciseCallMod(li.preSt, cm, li)
			if ok {
				for _, p := range pairs {
					if p.whole {
						addWide(p.key)
					} else {
						preciseMaps[p.key] = append(preciseMaps[p.key], p.ref)
					}
				}
				continue
			}
			keys, ghost, err := x.modKeysStatic(cm.m, cm.fc, cm.c)
			if err != nil {
				li.heapAll = true
				continue
			}
			for _, k := range keys {
				addWide(k)
			}
			if ghost != "" {
				li.ghosts[ghost] = true
			}
		}
		if !grew {
			break
		}
	}
	// havoc the write set
	var havocedCells []*ssa.Alloc
	for a := range li.cells {
		if cur, ok := st.cells[a]; ok && isSMTVal(cur) {
			et := a.Type().(*types.Pointer).Elem()
			if cur.K == VScalar && cur.T.S == SAny && cur.Typ != nil {
				continue
			}
			nv := x.havocVal(et, "loop."+a.Comment)
			x.assume(st, x.typeFacts(nv, et))
			if a.Comment == "rangeindex" && nv.K == VScalar {
				// the hidden range index starts at -1 and only increments
				x.assume(st, tCmp(">=", nv.T, intLit(-1)))
			}
			st.cells[a] = nv
			havocedCells = append(havocedCells, a)
		}
	}
	if li.heapAll {
		x.havocAllHeap(st, "loop")
	} else {
		for _, k := range sortedKeys(li.heap) {
			x.havocHeapKey(st, k, "loop")
		}
		for _, k := range sortedKeys(li.fresh) {
			if li.heap[k] {
				continue
			}
			srt, ok := x.heapSort[k]
			if !ok {
				continue
			}
			// only objects allocated inside the loop are written under this key
			preAlloc := x.heapGet(li.preSt, allocKey, arr(SInt, SBool))
			prev := x.heapGet(st, k, srt)
			nw := x.D.fresh("H."+k+".loopfresh", srt)
			r := &Term{Op: "r!lf", S: SInt}
			x.assume(st, tForall([]*Term{r}, tImp(tSelect(preAlloc, r), tEq(tSelect(nw, r), tSelect(prev, r))), []*Term{tSelect(nw, r)}))
			x.usesAlloc = true
			st.heap[k] = nw
		}
		for _, k := range sortedKeys(preciseMaps) {
			if li.heap[k] {
				continue
			}
			srt, ok := x.heapSort[k]
			if !ok {
				continue
			}
			_, vs, _ := arrParts(srt)
			h := x.heapGet(st, k, srt)
			done := map[string]bool{}
			for _, ref := range preciseMaps[k] {
				if done[ref.String()] {
					continue
				}
				done[ref.String()] = true
				h = tStore(h, ref, x.D.fresh("loop.map", vs))
			}
			x.dirty[k] = true
			st.heap[k] = h
		}
	}
	for _, a := range havocedCells {
		// references held in locals are nil or allocated (w.r.t. the allocation set at the loop head)
		x.assume(st, x.refFacts(st, st.cells[a], a.Type().(*types.Pointer).Elem()))
	}
	for r := range li.iters {
		if d, ok := st.iters[r]; ok && !d.isStr {
			nd := *d
			nd.visited = x.D.fresh("visited", d.visited.S)
			st.iters[r] = &nd
		}
	}
	for g := range li.ghosts {
		if cur, ok := st.ghost[g]; ok {
			st.ghost[g] = x.havocLike(cur, "loop."+g)
		}
	}
	if li.spec != nil {
		for _, c := range li.spec.Invs {
			t, err := x.specBool(x.specCtx(st, li), c.E)
			if err != nil {
				return fmt.Errorf("%s: loop %d invariant: %v", c.Where, ord, err)
			}
			x.assume(st, t)
		}
		if li.spec.Decreases != nil {
			v, err := x.specEval(x.specCtx(st, li), li.spec.Decreases)
			if err != nil {
				return err
			}
			li.dec0 = v.T
		}
	}
	return nil
}

func (x *Exec) havocLike(v *Val, hint string) *Val {
	switch v.K {
	case VScalar:
		return &Val{K: VScalar, T: x.D.fresh("hv."+hint, v.T.S), Typ: v.Typ, SetOf: v.SetOf}
	case VUnit:
		return v
	case VStruct, VTuple, VSlice, VFloat:
		out := &Val{K: v.K, Typ: v.Typ}
		for _, f := range v.F {
			out.F = append(out.F, x.havocLike(f, hint))
		}
		return out
	}
	return v
}

func (x *Exec) havocHeapKey(st *State, k string, hint string) {
	s, ok := x.heapSort[k]
	if !ok {
		return // never materialised in any pass: nothing reads it
	}
	if k == allocKey {
		old := x.heapGet(st, k, s)
		nw := x.D.fresh("alloc", s)
		r := &Term{Op: "r!a", S: SInt}
		x.assume(st, tForall([]*Term{r}, tImp(tSelect(old, r), tSelect(nw, r)), []*Term{tSelect(old, r)}))
		st.heap[k] = nw
		return
	}
	nh := x.D.fresh("H."+k+"."+hint, s)
	st.heap[k] = nh
	x.dirty[k] = true
	x.nilMapFact(k, nh)
}

func (x *Exec) havocAllHeap(st *State, hint string) {
	x.dirtyAll = true
	for _, k := range sortedKeys(x.heapSort) {
		x.havocHeapKey(st, k, hint)
	}
}

func (x *Exec) closeLoop(li *loopInfo, st *State, cond *Term) {
	if li == nil || st.dead {
		return
	}
	s := st.clone()
	s.reach = cond
	if li.spec == nil {
		return
	}
	// ghost steps (evaluated in the end-of-body state, simultaneously)
	newG := map[string]*Val{}
	for _, g := range li.spec.Ghosts {
		gctx := x.specCtx(s, li)
		gctx.inBody = true // the step describes the iteration that just ran: its body locals are in scope
		v, err := x.specEval(gctx, g.Step)
		if err != nil {
			x.errorf("loop %d ghost %s step: %v", li.ord, g.Name, err)
			continue
		}
		ty, _ := x.resolveType(g.Type, x.pkg)
		newG["lg:"+g.Name] = x.coerceSpec(v, ty)
	}
	for k, v := range newG {
		s.ghost[k] = v
	}
	for _, c := range li.spec.Invs {
		t, err := x.specBool(x.specCtx(s, li), c.E)
		if err != nil {
			x.errorf("%s: loop %d invariant: %v", c.Where, li.ord, err)
			continue
		}
		x.oblige(s, fmt.Sprintf("loop%d-back", li.ord), c.Label, t, li.header.Instrs[0].Pos(), c.Src, c.Tags)
	}
	if li.spec.Decreases != nil && li.dec0 != nil {
		v, err := x.specEval(x.specCtx(s, li), li.spec.Decreases)
		if err == nil {
			x.oblige(s, fmt.Sprintf("loop%d-decreases", li.ord), "", tAnd(tCmp(">=", li.dec0, intLit(0)), tCmp("<", v.T, li.dec0)), li.header.Instrs[0].Pos(), "variant decreases and is bounded below", nil)
		}
	}
}


type mapOp struct {
	v  ssa.Value
	mt *types.Map
}

// invariantRef evaluates an SSA value in the loop's pre-state if it is loop-invariant:
// parameters, loads of cells not written in the loop, and loads of fields not written in the loop
// (through loop-invariant pointers).
func (x *Exec) invariantRef(st *State, v ssa.Value, li *loopInfo, depth int) (*Term, bool) {
	if depth > 6 || li.heapAll {
		return nil, false
	}
	switch v := v.(type) {
	case *ssa.Parameter:
		if r, ok := x.regs[v]; ok && r.K == VScalar {
			return r.T, true
		}
	case *ssa.UnOp:
		if v.Op.String() != "*" {
			return nil, false
		}
		switch a := v.X.(type) {
		case *ssa.Alloc:
			if li.cells[a] {
				return nil, false
			}
			if li.blocks[a.Block()] {
				return nil, false
			}
			if cur, ok := st.cells[a]; ok && cur.K == VScalar {
				return cur.T, true
			}
		case *ssa.FieldAddr:
			base, ok := x.invariantRef(st, a.X, li, depth+1)
			if !ok {
				return nil, false
			}
			pt := a.X.Type().Underlying().(*types.Pointer).Elem()
			stt := pt.Underlying().(*types.Struct)
			f := stt.Field(a.Field)
			if k, _ := classify(f.Type()); k != TScalar {
				return nil, false
			}
			key := objKey(pt, f.Name())
			if li.heap[key] {
				return nil, false
			}
			_, srt := classify(f.Type())
			return tSelect(x.heapGet(st, key, arr(SInt, srt)), base), true
		}
	default:
		if !li.blocks[instrBlock(v)] {
			if r, ok := x.regs[v]; ok && r.K == VScalar {
				return r.T, true
			}
		}
	}
	return nil, false
}

func instrBlock(v ssa.Value) *ssa.BasicBlock {
	if in, ok := v.(ssa.Instruction); ok {
		return in.Block()
	}
	return nil
}


type callMod struct {
	c  *ssa.CallCommon
	fc *FuncContract
	m  *Expr
}

type modPair struct {
	key   string
	whole bool
	ref   *Term
}

// preciseCallMod evaluates a callee's modifies entry in the loop pre-state when everything it
// depends on is loop-invariant.
func (x *Exec) preciseCallMod(pre *State, cm callMod, li *loopInfo) (pairs []modPair, ok bool) {
	key := x.calleeKey(cm.c)
	names := x.contractParamNames(key, cm.fc, cm.c)
	ptypes := calleeParamTypes(cm.c, cm.fc, x.P.funcs[key])
	vars := map[string]*Val{}
	args := cm.c.Args
	if cm.c.IsInvoke() {
		args = append([]ssa.Value{cm.c.Value}, args...)
	}
	for i, n := range names {
		if i >= len(args) || i >= len(ptypes) || ptypes[i] == nil {
			continue
		}
		if ref, ok := x.invariantRef(pre, args[i], li, 0); ok {
			vars[n] = scalar(ref, ptypes[i])
		}
	}
	defer func() {
		if r := recover(); r != nil {
			pairs, ok = nil, false
		}
	}()
	ctx := &SpecCtx{st: pre, old: pre, vars: vars, pkg: cm.fc.Pkg}
	// the entry must only read loop-invariant locations: approximate by requiring that evaluation succeeds with the
	// invariant arguments alone and that every field it reads is outside the type-wide write set (checked through
	// a shadow state whose written keys are poisoned).
	shadow := pre.clone()
	for k := range li.heap {
		if s, has := x.heapSort[k]; has {
			shadow.heap[k] = &Term{Op: "POISON", S: s}
		}
	}
	sctx := &SpecCtx{st: shadow, old: shadow, vars: vars, pkg: cm.fc.Pkg}
	poisoned := false
	err := x.frameAllow(sctx, cm.m, func(key string, whole bool, ref *Term) {
		if ref != nil && strings.Contains(ref.String(), "POISON") {
			poisoned = true
		}
	})
	if err != nil || poisoned {
		return nil, false
	}
	err = x.frameAllow(ctx, cm.m, func(key string, whole bool, ref *Term) {
		pairs = append(pairs, modPair{key, whole, ref})
	})
	if err != nil {
		return nil, false
	}
	return pairs, true
}
