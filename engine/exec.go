package main

import (
	"os"
	"fmt"
	"go/constant"
	"go/token"
	"go/types"
	"sort"
	"strings"

	"golang.org/x/tools/go/ssa"
)

type Obligation struct {
	Name   string
	Kind   string
	Label  string
	Func   string
	Where  string
	Prefix int // number of background assertions visible
	Reach  *Term
	Goal   *Term
	Tags   []string
	Src    string
	Cover  bool // expect sat (vacuity check)
	// filled by solve
	Result  string
	Solver  string
	Millis  int64
	Output  string
	SMTFile string
}

type Exec struct {
	P   *Program
	C   *Contracts
	fn  *ssa.Function
	key string
	fc  *FuncContract
	pkg string

	D        *Decls
	asserts  []*Term
	obls     []*Obligation
	initHeap map[string]*Term
	heapSort map[string]Sort
	regs     map[ssa.Value]*Val
	lits     map[string]*Term
	litOrder []string
	sentinel map[string]*Term
	ufuncs   map[string]bool
	axiomsOn map[string]bool
	globals  map[*ssa.Global]*Val

	strTheory bool
	usesAlloc bool
	dirty     map[string]bool // heap keys written other than at objects allocated by this function
	dirtyAll  bool
	usesReal  bool
	entry     *State
	exitEdges []inEdge
	results   []*Val // merged at exit
	retVals   map[*State][]*Val

	loops     map[*ssa.BasicBlock]*loopInfo
	loopOrd   map[*ssa.BasicBlock]int
	edgeOut   map[[2]int]*State
	edgeCond  map[[2]int]*Term
	loopGhost map[string]*Val // current values by name, stored in state.ghost with prefix "lg:"
	trusted   map[string]bool // extern/trusted contracts used
	unknown   map[string]bool // unknown callees havoced
	nUnlock   int
	nLock     int
	siteCount map[string]int
	errs      []string
	params    map[string]*Val
	paramTyp  map[string]types.Type
	resultTyp []types.Type
	namedRes  []string
	curInstr  ssa.Instruction
	overflow  bool

	freeVarRefs    []fvRef
	dropped        map[string]bool
	globalsRead    map[string]bool
	assumptions    map[string]bool
	axiomsUsed     map[string]bool
	pureExt        map[string]bool
	usedContracts  map[string]bool
	matchedCalls   map[string]bool
	pureFuncs      map[string]bool
	mergingSnap    bool
	skippedEnsures map[string]bool
	escaped        map[*ssa.Alloc]bool
	escapedObjs    []*ssa.Alloc // heap-allocated struct locals whose address was boxed into an interface
	freshBytes     map[string]bool
	detExt         map[string]bool
	preludeText    string
	callSeen       map[string]int  // (initialisation marker for callSites)
	callSites      map[string][]token.Pos // call sites per callee key, in source order
	absMaps        map[string]bool // map types (by their dom heap key) whose contents this function does not model
	entryAsserts   int     // number of background assertions that describe the entry state only (axioms, parameter facts, requires)
	replayFacts    []*Term // facts about values synthesised for a replay
	labels         map[string]*State
	exit           *State
	bvN            int
}

func (x *Exec) initMaps() {
	x.dropped = map[string]bool{}
	x.globalsRead = map[string]bool{}
	x.assumptions = map[string]bool{}
	x.axiomsUsed = map[string]bool{}
	x.pureExt = map[string]bool{}
	x.usedContracts = map[string]bool{}
	x.matchedCalls = map[string]bool{}
	x.pureFuncs = map[string]bool{}
	x.skippedEnsures = map[string]bool{}
	if x.dirty == nil {
		x.dirty = map[string]bool{}
	}
	x.escaped = map[*ssa.Alloc]bool{}
	x.escapedObjs = nil
	x.freshBytes = map[string]bool{}
	x.detExt = map[string]bool{}
	x.labels = map[string]*State{}
	if x.regs == nil {
		x.regs = map[ssa.Value]*Val{}
	}
	if x.globals == nil {
		x.globals = map[*ssa.Global]*Val{}
	}
	if x.loops == nil {
		x.loops = map[*ssa.BasicBlock]*loopInfo{}
	}
}

type loopInfo struct {
	header *ssa.BasicBlock
	blocks map[*ssa.BasicBlock]bool
	backs  []*ssa.BasicBlock
	ord    int
	spec   *LoopSpec
	// write set
	cells    map[*ssa.Alloc]bool
	heap     map[string]bool
	heapAll  bool
	iters    map[*ssa.Range]bool
	ghosts   map[string]bool
	preSt    *State
	dec0     *Term
	fresh    map[string]bool
	mapOps   []mapOp
	callMods []callMod
	fieldSts []fieldStore
}

// fieldStore is a store to fields of the object a (possibly loop-invariant) pointer value denotes.
type fieldStore struct {
	root ssa.Value
	keys []string
}

func newExec(P *Program, C *Contracts, key string) (*Exec, error) {
	fn := P.funcs[key]
	if fn == nil {
		return nil, fmt.Errorf("target-missing: function %s not found in the working tree", key)
	}
	fc := C.Funcs[key]
	x := &Exec{P: P, C: C, fn: fn, key: key, fc: fc, D: newDecls(),
		initHeap: map[string]*Term{}, heapSort: map[string]Sort{}, regs: map[ssa.Value]*Val{}, lits: map[string]*Term{},
		sentinel: map[string]*Term{}, ufuncs: map[string]bool{}, axiomsOn: map[string]bool{}, globals: map[*ssa.Global]*Val{},
		loops: map[*ssa.BasicBlock]*loopInfo{}, edgeOut: map[[2]int]*State{}, edgeCond: map[[2]int]*Term{},
		trusted: map[string]bool{}, unknown: map[string]bool{}, siteCount: map[string]int{}, params: map[string]*Val{}, paramTyp: map[string]types.Type{}}
	x.initMaps()
	if fn.Pkg != nil {
		x.pkg = fn.Pkg.Pkg.Name()
	} else if fn.Parent() != nil {
		x.pkg = fn.Parent().Pkg.Pkg.Name()
	}
	if fc != nil {
		x.strTheory = fc.Strings == "theory"
		x.overflow = fc.Overflow
	}
	return x, nil
}

func (x *Exec) errorf(format string, args ...any) {
	x.errs = append(x.errs, fmt.Sprintf(format, args...))
}

func (x *Exec) assume(st *State, t *Term) {
	if isTrue(t) {
		return
	}
	x.asserts = append(x.asserts, tImp(st.reach, t))
}

func (x *Exec) where(pos token.Pos) string {
	if !pos.IsValid() {
		return ""
	}
	p := x.P.SSA.Fset.Position(pos)
	return fmt.Sprintf("%s:%d", strings.TrimPrefix(p.Filename, repoDir+"/"), p.Line)
}

func (x *Exec) oblige(st *State, kind, label string, goal *Term, pos token.Pos, src string, tags []string) {
	if st.dead {
		return
	}
	name := x.key + "#" + kind
	if label != "" {
		name += ":" + label
	}
	x.siteCount[name]++
	if n := x.siteCount[name]; n > 1 {
		name = fmt.Sprintf("%s@%d", name, n)
	}
	x.obls = append(x.obls, &Obligation{Name: name, Kind: kind, Label: label, Func: x.key, Where: x.where(pos),
		Prefix: len(x.asserts), Reach: st.reach, Goal: goal, Src: src, Tags: tags})
}

// ---------- literals ----------

func (x *Exec) strLit(s string) *Term {
	if s == "" {
		return strEmpty
	}
	if t, ok := x.lits[s]; ok {
		return t
	}
	var t *Term
	if x.strTheory {
		t = &Term{Op: smtStringLit(s), S: SStr}
	} else {
		t = &Term{Op: fmt.Sprintf("lit!%d", len(x.litOrder)), S: SStr}
	}
	x.lits[s] = t
	x.litOrder = append(x.litOrder, s)
	return t
}

func (x *Exec) constVal(c *ssa.Const) *Val {
	t := c.Type()
	if c.Value == nil {
		return zeroVal(t)
	}
	k, s := classify(t)
	switch k {
	case TScalar:
		switch s {
		case SBool:
			if constant.BoolVal(c.Value) {
				return scalar(tTrue, t)
			}
			return scalar(tFalse, t)
		case SInt:
			v := constant.ToInt(c.Value)
			return scalar(intLitStr(v.ExactString()), t)
		case SStr:
			return scalar(x.strLit(constant.StringVal(c.Value)), t)
		}
	case TFloat:
		x.usesReal = true
		f := constant.ToFloat(c.Value)
		return &Val{K: VFloat, Typ: t, F: []*Val{scalar(tFalse, nil), scalar(ratTerm(f), nil)}}
	}
	return x.havocVal(t, "const")
}

func ratTerm(v constant.Value) *Term {
	num := constant.Num(v)
	den := constant.Denom(v)
	if num.Kind() == constant.Unknown {
		return realLitStr("0")
	}
	ns, ds := num.ExactString(), den.ExactString()
	neg := strings.HasPrefix(ns, "-")
	if neg {
		ns = ns[1:]
	}
	var t *Term
	if ds == "1" {
		t = &Term{Op: ns + ".0", S: SReal}
	} else {
		t = &Term{Op: "(/ " + ns + ".0 " + ds + ".0)", S: SReal}
	}
	if neg {
		t = &Term{Op: "(- " + t.Op + ")", S: SReal}
	}
	return t
}

func (x *Exec) havocVal(t types.Type, hint string) *Val {
	v := buildVal(t, "", func(path string, s Sort, _ types.Type) *Term {
		return x.D.fresh("hv."+hint+"."+path, s)
	})
	return v
}

// typeFacts returns range/shape facts that hold for any Go value of type t.
func (x *Exec) typeFacts(v *Val, t types.Type) *Term {
	var cs []*Term
	var rec func(v *Val, t types.Type)
	rec = func(v *Val, t types.Type) {
		if t == nil {
			return
		}
		switch v.K {
		case VScalar:
			if v.T.S == SInt {
				if b, ok := types.Unalias(t).Underlying().(*types.Basic); ok && b.Info()&types.IsInteger != 0 {
					lo, hi := intRange(b)
					if lo != "" {
						cs = append(cs, tCmp(">=", v.T, intLitStr(lo)), tCmp("<=", v.T, intLitStr(hi)))
					}
				} else if _, ok := t.Underlying().(*types.Pointer); ok {
					cs = append(cs, tCmp(">=", v.T, intLit(0)))
				} else if _, ok := t.Underlying().(*types.Map); ok {
					cs = append(cs, tCmp(">=", v.T, intLit(0)))
				}
			}
		case VSlice:
			cs = append(cs, tCmp(">=", v.F[2].T, intLit(0)), tCmp(">=", v.F[1].T, intLit(0)), tCmp(">=", v.F[0].T, intLit(0)))
			cs = append(cs, tImp(tEq(v.F[0].T, intLit(0)), tEq(v.F[2].T, intLit(0))))
		case VStruct:
			st, ok := t.Underlying().(*types.Struct)
			if !ok {
				return
			}
			for i := range v.F {
				rec(v.F[i], st.Field(i).Type())
			}
		case VTuple:
			tp, ok := t.(*types.Tuple)
			if !ok {
				return
			}
			for i := range v.F {
				rec(v.F[i], tp.At(i).Type())
			}
		}
	}
	rec(v, t)
	return tAnd(cs...)
}

// refFacts: every reference held in a live value is nil or allocated (a runtime invariant of Go).
func (x *Exec) refFacts(st *State, v *Val, t types.Type) *Term {
	var cs []*Term
	al := func() *Term { x.usesAlloc = true; return x.heapGet(st, allocKey, arr(SInt, SBool)) }
	var rec func(v *Val, t types.Type, depth int)
	rec = func(v *Val, t types.Type, depth int) {
		if t == nil || v == nil || depth > 6 {
			return
		}
		switch v.K {
		case VScalar:
			if v.T.S != SInt {
				return
			}
			switch types.Unalias(t).Underlying().(type) {
			case *types.Pointer, *types.Map:
				cs = append(cs, tOr(tEq(v.T, intLit(0)), tSelect(al(), v.T)))
			}
		case VSlice:
			cs = append(cs, tOr(tEq(v.F[0].T, intLit(0)), tSelect(al(), v.F[0].T)))
		case VStruct:
			st, ok := t.Underlying().(*types.Struct)
			if !ok {
				return
			}
			for i := range v.F {
				rec(v.F[i], st.Field(i).Type(), depth+1)
			}
		case VTuple:
			tp, ok := t.(*types.Tuple)
			if !ok {
				return
			}
			for i := range v.F {
				rec(v.F[i], tp.At(i).Type(), depth+1)
			}
		}
	}
	rec(v, t, 0)
	return tAnd(cs...)
}

func intRange(b *types.Basic) (string, string) {
	switch b.Kind() {
	case types.Int, types.Int64:
		return "-9223372036854775808", "9223372036854775807"
	case types.Int32:
		return "-2147483648", "2147483647"
	case types.Int16:
		return "-32768", "32767"
	case types.Int8:
		return "-128", "127"
	case types.Uint, types.Uint64, types.Uintptr:
		return "0", "18446744073709551615"
	case types.Uint32:
		return "0", "4294967295"
	case types.Uint16:
		return "0", "65535"
	case types.Uint8:
		return "0", "255"
	}
	return "", ""
}

// ---------- CFG / loops ----------

func (x *Exec) findLoops() {
	fn := x.fn
	for _, b := range fn.Blocks {
		for _, s := range b.Succs {
			if s.Dominates(b) {
				li := x.loops[s]
				if li == nil {
					li = &loopInfo{header: s, blocks: map[*ssa.BasicBlock]bool{s: true}, cells: map[*ssa.Alloc]bool{}, heap: map[string]bool{}, fresh: map[string]bool{}, iters: map[*ssa.Range]bool{}, ghosts: map[string]bool{}}
					x.loops[s] = li
				}
				li.backs = append(li.backs, b)
				// natural loop: all blocks that reach b without passing header
				var stack []*ssa.BasicBlock
				if !li.blocks[b] {
					li.blocks[b] = true
					stack = append(stack, b)
				}
				for len(stack) > 0 {
					n := stack[len(stack)-1]
					stack = stack[:len(stack)-1]
					for _, p := range n.Preds {
						if !li.blocks[p] {
							li.blocks[p] = true
							stack = append(stack, p)
						}
					}
				}
			}
		}
	}
	var hs []*ssa.BasicBlock
	for h := range x.loops {
		hs = append(hs, h)
	}
	// order loops by the source position of their first positioned instruction
	posOf := func(b *ssa.BasicBlock) token.Pos {
		best := token.NoPos
		for blk := range x.loops[b].blocks {
			for _, in := range blk.Instrs {
				if p := in.Pos(); p.IsValid() && (best == token.NoPos || p < best) {
					best = p
				}
			}
		}
		return best
	}
	sort.Slice(hs, func(i, j int) bool {
		pi, pj := posOf(hs[i]), posOf(hs[j])
		if pi != pj {
			return pi < pj
		}
		return hs[i].Index < hs[j].Index
	})
	for i, h := range hs {
		x.loops[h].ord = i + 1
		if x.fc != nil {
			x.loops[h].spec = x.fc.Loops[i+1]
		}
		if os.Getenv("GOVC_LOOPS") != "" {
			fmt.Fprintf(os.Stderr, "loop %d of %s starts at %s\n", i+1, x.key, x.P.SSA.Fset.Position(posOf(h)))
		}
	}
}

func (x *Exec) isBackEdge(from, to *ssa.BasicBlock) bool {
	return to.Dominates(from)
}

// topo order ignoring back edges
func (x *Exec) blockOrder() []*ssa.BasicBlock {
	fn := x.fn
	visited := map[*ssa.BasicBlock]bool{}
	var post []*ssa.BasicBlock
	var dfs func(b *ssa.BasicBlock)
	dfs = func(b *ssa.BasicBlock) {
		visited[b] = true
		for _, s := range b.Succs {
			if x.isBackEdge(b, s) || visited[s] {
				continue
			}
			dfs(s)
		}
		post = append(post, b)
	}
	dfs(fn.Blocks[0])
	for i, j := 0, len(post)-1; i < j; i, j = i+1, j-1 {
		post[i], post[j] = post[j], post[i]
	}
	return post
}

// ---------- run ----------

// run executes the function symbolically and fills x.obls.
func (x *Exec) run() (err error) {
	defer func() {
		if r := recover(); r != nil {
			if ue, ok := r.(unsupported); ok {
				err = fmt.Errorf("out-of-subset: %s", string(ue))
				return
			}
			panic(r)
		}
	}()
	fn := x.fn
	if len(fn.Blocks) == 0 {
		return fmt.Errorf("function %s has no body", x.key)
	}
	x.absMaps = map[string]bool{}
	if x.fc != nil {
		for _, ts := range x.fc.Abstract {
			t, err := x.goType(ts, x.pkg)
			if err != nil {
				return fmt.Errorf("abstract maps(%s): %v", ts, err)
			}
			mt, ok := t.Underlying().(*types.Map)
			if !ok {
				return fmt.Errorf("abstract maps(%s): not a map type", ts)
			}
			x.absMaps[mapDomKey(mt)] = true
			x.noteDropped("contents of maps of type " + ts + " (declared abstract for " + x.key + ": every write havocs them)")
		}
	}
	x.findLoops()
	st := &State{cells: map[*ssa.Alloc]*Val{}, heap: map[string]*Term{}, ghost: map[string]*Val{}, iters: map[*ssa.Range]*iterData{}, reach: tTrue}
	// parameters
	for pi, p := range fn.Params {
		pname := p.Name()
		if pname == "_" || pname == "" {
			pname = fmt.Sprintf("blank%d", pi) // blank parameters must not share one symbol
		}
		v := x.havocParam(p.Type(), pname)
		x.regs[p] = v
		x.params[p.Name()] = v
		x.paramTyp[p.Name()] = p.Type()
		x.assume(st, x.typeFacts(v, p.Type()))
		x.assume(st, x.refFacts(st, v, p.Type()))
	}
	for i, fv := range fn.FreeVars {
		// captured variable: pointer to the variable; model as a cell-like heap object
		pt := fv.Type().(*types.Pointer)
		ref := x.D.declareConst("fv."+sanitize(fv.Name()), SInt)
		_ = i
		x.assume(st, tCmp(">", ref, intLit(0)))
		x.regs[fv] = scalar(ref, fv.Type())
		x.params[fv.Name()] = x.loadObj(st, ref, pt.Elem(), "", pt.Elem())
		x.paramTyp[fv.Name()] = pt.Elem()
		x.freeVarRefs = append(x.freeVarRefs, fvRef{fv.Name(), ref, pt.Elem()})
	}
	// ghost vars
	for _, name := range sortedKeys(x.C.Ghosts) {
		ty, err := x.resolveType(x.C.Ghosts[name], x.pkg)
		if err != nil {
			continue // its type lives in a package this check does not load: no contract in scope can mention it
		}
		st.ghost[name] = x.havocSpec(ty, "ghost."+name)
		if ty.Go != nil {
			// references remembered in ghost state are nil or allocated, like any other live reference
			x.assume(st, x.refFacts(st, st.ghost[name], ty.Go))
			x.assume(st, x.typeFacts(st.ghost[name], ty.Go))
		}
	}
	st.ghost["$perm"] = &Val{K: VScalar, T: x.D.fresh("perm0", arr(SInt, SInt))}
	st.ghost["$perminv"] = &Val{K: VScalar, T: x.D.fresh("perminv0", arr(SInt, SInt))}
	if x.fc != nil && x.fc.Monitor == "locked" {
		st.ghost["$heldW"] = scalar(tTrue, nil)
		st.ghost["$heldR"] = scalar(tTrue, nil)
	} else {
		st.ghost["$heldW"] = scalar(tFalse, nil)
		st.ghost["$heldR"] = scalar(tFalse, nil)
	}
	sig := fn.Signature
	for i := 0; i < sig.Results().Len(); i++ {
		x.resultTyp = append(x.resultTyp, sig.Results().At(i).Type())
		x.namedRes = append(x.namedRes, sig.Results().At(i).Name())
	}
	x.entry = st.clone()
	st.snap = x.entry
	// global axioms of the spec layer
	if err := x.emitAxioms(st); err != nil {
		return err
	}
	// requires
	if x.fc != nil {
		for _, c := range x.fc.Requires {
			t, err := x.specBool(x.specCtx(st, nil), c.E)
			if err != nil {
				return fmt.Errorf("%s: requires: %v", c.Where, err)
			}
			x.assume(st, t)
		}
	}
	x.entry = st.clone()
	st.snap = x.entry
	x.entryAsserts = len(x.asserts)

	order := x.blockOrder()
	for _, b := range order {
		var in *State
		if b == fn.Blocks[0] {
			in = st
		} else {
			var edges []inEdge
			for _, p := range b.Preds {
				if x.isBackEdge(p, b) {
					continue
				}
				k := [2]int{p.Index, b.Index}
				if es, ok := x.edgeOut[k]; ok && !es.dead {
					edges = append(edges, inEdge{es, x.edgeCond[k]})
				}
			}
			if len(edges) == 0 {
				continue // unreachable (e.g. recover block)
			}
			m, err := x.mergeStates(fmt.Sprintf("b%d", b.Index), edges)
			if err != nil {
				return err
			}
			in = m
		}
		if li := x.loops[b]; li != nil {
			if err := x.enterLoop(li, in); err != nil {
				return err
			}
		}
		if err := x.execBlock(b, in); err != nil {
			return err
		}
	}
	return x.finish()
}

type fvRef struct {
	name string
	ref  *Term
	typ  types.Type
}

type unsupported string

func (x *Exec) unsupported(format string, args ...any) {
	panic(unsupported(fmt.Sprintf(format, args...)))
}

func (x *Exec) havocParam(t types.Type, name string) *Val {
	return buildVal(t, "", func(path string, s Sort, _ types.Type) *Term {
		n := "p." + sanitize(name)
		if path != "" {
			n += "." + sanitize(path)
		}
		return x.D.declareConst(n, s)
	})
}

// setEdge records the out-state for edge b->succ.
func (x *Exec) setEdge(b, succ *ssa.BasicBlock, st *State, cond *Term) {
	k := [2]int{b.Index, succ.Index}
	if termSize(cond) > 6 {
		r := x.D.fresh(fmt.Sprintf("e%d_%d", b.Index, succ.Index), SBool)
		x.asserts = append(x.asserts, tEq(r, cond))
		cond = r
	}
	if x.isBackEdge(b, succ) {
		x.closeLoop(x.loops[succ], st, cond)
		return
	}
	x.edgeOut[k] = st
	x.edgeCond[k] = cond
}

func (x *Exec) execBlock(b *ssa.BasicBlock, st *State) error {
	for _, in := range b.Instrs {
		x.curInstr = in
		if st.dead {
			return nil
		}
		switch in := in.(type) {
		case *ssa.If:
			c := x.val(st, in.Cond).T
			x.setEdge(b, b.Succs[0], st, tAnd(st.reach, c))
			x.setEdge(b, b.Succs[1], st, tAnd(st.reach, tNot(c)))
			return nil
		case *ssa.Jump:
			x.setEdge(b, b.Succs[0], st, st.reach)
			return nil
		case *ssa.Return:
			var rs []*Val
			for _, r := range in.Results {
				rs = append(rs, x.val(st, r))
			}
			x.addExit(st, rs)
			return nil
		case *ssa.Panic:
			if x.fc == nil || x.fc.NoPanic {
				x.oblige(st, "nopanic", "explicit", tFalse, in.Pos(), "panic unreachable", nil)
			}
			return nil
		default:
			if err := x.execInstr(st, in); err != nil {
				return err
			}
		}
	}
	return nil
}

func (x *Exec) addExit(st *State, rs []*Val) {
	if x.retVals == nil {
		x.retVals = map[*State][]*Val{}
	}
	s := st.clone()
	x.retVals[s] = rs
	x.exitEdges = append(x.exitEdges, inEdge{s, s.reach})
}

// val returns the symbolic value of an SSA value.
func (x *Exec) val(st *State, v ssa.Value) *Val {
	switch v := v.(type) {
	case *ssa.Const:
		return x.constVal(v)
	case *ssa.Global:
		return &Val{K: VPath, Path: &Path{Global: v, T: v.Type().(*types.Pointer).Elem()}, Typ: v.Type()}
	case *ssa.Function:
		return &Val{K: VClosure, Clo: &Closure{Fn: v}, Typ: v.Type()}
	case *ssa.Builtin:
		return &Val{K: VClosure, Clo: &Closure{}, Typ: v.Type()}
	}
	if r, ok := x.regs[v]; ok {
		return r
	}
	x.unsupported("use of undefined SSA value %s (%T) in %s", v.Name(), v, x.key)
	return nil
}

// nameTerm binds a large term to a fresh constant (definitional equality, unguarded) to keep queries small.
func (x *Exec) nameTerm(hint string, t *Term) *Term {
	if termSize(t) <= 10 {
		return t
	}
	n := x.D.fresh("v."+hint, t.S)
	x.asserts = append(x.asserts, tEq(n, t))
	return n
}

func (x *Exec) nameVal(hint string, v *Val) *Val {
	switch v.K {
	case VScalar:
		if _, isArr, _ := arrParts(v.T.S); isArr != "" {
			return v
		}
		nt := x.nameTerm(hint, v.T)
		if nt == v.T {
			return v
		}
		c := *v
		c.T = nt
		return &c
	case VStruct, VTuple, VSlice, VFloat:
		changed := false
		out := &Val{K: v.K, Typ: v.Typ}
		for _, f := range v.F {
			nf := x.nameVal(hint, f)
			if nf != f {
				changed = true
			}
			out.F = append(out.F, nf)
		}
		if !changed {
			return v
		}
		return out
	}
	return v
}

func (x *Exec) setReg(v ssa.Value, val *Val) {
	val = x.nameVal(v.Name(), val)
	if val.Typ == nil {
		val = &Val{K: val.K, T: val.T, F: val.F, Path: val.Path, Clo: val.Clo, Iter: val.Iter, Typ: v.Type(), SetOf: val.SetOf}
	}
	x.regs[v] = val
}
