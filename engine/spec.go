package main

import (
	"fmt"
	"go/constant"
	"go/types"
	"strings"

	"golang.org/x/tools/go/ssa"
)

type SpecCtx struct {
	st         *State
	old        *State
	pre        *State
	vars       map[string]*Val
	li         *loopInfo
	pkg        string
	locals     bool // identifiers may denote locals/params of the function under verification
	depth      int
	inBody     bool // evaluated at a program point inside the body: names denote current local cells
	quantDepth int
	cellSt     *State // state whose local cells names denote (always the current program point, also inside old())
	inOld      bool   // inside old()/at(): parameters denote entry values, other locals their current value
}

func (c *SpecCtx) cells() *State {
	if c.cellSt != nil {
		return c.cellSt
	}
	return c.st
}

func (x *Exec) specCtx(st *State, li *loopInfo) *SpecCtx {
	old := st.snap
	if old == nil {
		old = x.entry
	}
	c := &SpecCtx{st: st, old: old, vars: map[string]*Val{}, li: li, pkg: x.pkg, locals: true}
	if x.fc != nil && x.fc.Pkg != "" {
		c.pkg = x.fc.Pkg
	}
	if li != nil {
		c.pre = li.preSt
	}
	return c
}

func (c *SpecCtx) with(vars map[string]*Val) *SpecCtx {
	n := *c
	n.vars = map[string]*Val{}
	for k, v := range c.vars {
		n.vars[k] = v
	}
	for k, v := range vars {
		n.vars[k] = v
	}
	return &n
}

func (c *SpecCtx) inState(st *State) *SpecCtx {
	n := *c
	if n.cellSt == nil {
		n.cellSt = c.st
	}
	n.st = st
	return &n
}

// ---- types in contracts ----

type specType struct {
	Go   types.Type // nil for pure spec types
	Set  Sort       // element sort for set[T]
	MapK Sort       // gmap[K]V
	MapV Sort
	S    Sort // scalar sort for spec scalars without a Go type
}

func (x *Exec) lookupPkg(name string) *types.Package {
	if p, ok := x.P.Pkgs[name]; ok {
		return p.Types
	}
	return nil
}

func (x *Exec) resolveType(text string, pkg string) (*specType, error) {
	text = strings.TrimSpace(text)
	switch {
	case strings.HasPrefix(text, "set[") && strings.HasSuffix(text, "]"):
		inner, err := x.resolveType(text[4:len(text)-1], pkg)
		if err != nil {
			return nil, err
		}
		return &specType{Set: inner.sort()}, nil
	case strings.HasPrefix(text, "gmap["):
		i := strings.Index(text, "]")
		k, err := x.resolveType(text[5:i], pkg)
		if err != nil {
			return nil, err
		}
		v, err := x.resolveType(text[i+1:], pkg)
		if err != nil {
			return nil, err
		}
		return &specType{MapK: k.sort(), MapV: v.sort()}, nil
	case text == "real":
		return &specType{S: SReal}, nil
	case text == "mathint":
		return &specType{S: SInt}, nil
	}
	t, err := x.goType(text, pkg)
	if err != nil {
		return nil, err
	}
	return &specType{Go: t}, nil
}

func (t *specType) sort() Sort {
	if t.Set != "" {
		return arr(t.Set, SBool)
	}
	if t.MapK != "" {
		return arr(t.MapK, t.MapV)
	}
	if t.S != "" {
		return t.S
	}
	k, s := classify(t.Go)
	if k != TScalar {
		return SAny
	}
	return s
}

func (x *Exec) goType(text string, pkg string) (types.Type, error) {
	text = strings.TrimSpace(text)
	switch {
	case strings.HasPrefix(text, "*"):
		t, err := x.goType(text[1:], pkg)
		if err != nil {
			return nil, err
		}
		return types.NewPointer(t), nil
	case strings.HasPrefix(text, "[]"):
		t, err := x.goType(text[2:], pkg)
		if err != nil {
			return nil, err
		}
		return types.NewSlice(t), nil
	case strings.HasPrefix(text, "map["):
		depth := 0
		for i := 3; i < len(text); i++ {
			if text[i] == '[' {
				depth++
			} else if text[i] == ']' {
				depth--
				if depth == 0 {
					k, err := x.goType(text[4:i], pkg)
					if err != nil {
						return nil, err
					}
					v, err := x.goType(text[i+1:], pkg)
					if err != nil {
						return nil, err
					}
					return types.NewMap(k, v), nil
				}
			}
		}
	}
	if text == "struct{}" {
		return types.NewStruct(nil, nil), nil
	}
	if o := types.Universe.Lookup(text); o != nil {
		if tn, ok := o.(*types.TypeName); ok {
			return tn.Type(), nil
		}
	}
	if i := strings.Index(text, "."); i >= 0 {
		pn, tn := text[:i], text[i+1:]
		// a loaded package by short name, or an import of the current package
		if p := x.lookupPkg(pn); p != nil {
			if o := p.Scope().Lookup(tn); o != nil {
				return o.Type(), nil
			}
		}
		if cp := x.lookupPkg(pkg); cp != nil {
			for _, imp := range allImports(cp) {
				if imp.Name() == pn {
					if o := imp.Scope().Lookup(tn); o != nil {
						return o.Type(), nil
					}
				}
			}
		}
		for _, lp := range x.P.Pkgs {
			for _, imp := range allImports(lp.Types) {
				if imp.Name() == pn {
					if o := imp.Scope().Lookup(tn); o != nil {
						return o.Type(), nil
					}
				}
			}
		}
		return nil, fmt.Errorf("unknown type %s", text)
	}
	if p := x.lookupPkg(pkg); p != nil {
		if o := p.Scope().Lookup(text); o != nil {
			if _, ok := o.(*types.TypeName); ok {
				return o.Type(), nil
			}
		}
	}
	return nil, fmt.Errorf("unknown type %q in package %s", text, pkg)
}

func allImports(p *types.Package) []*types.Package { return p.Imports() }

func (x *Exec) havocSpec(t *specType, hint string) *Val {
	if t.Go != nil {
		return x.havocVal(t.Go, hint)
	}
	v := &Val{K: VScalar, T: x.D.fresh(hint, t.sort())}
	if t.Set != "" {
		v.SetOf = t.Set
	}
	return v
}

func (x *Exec) coerceSpec(v *Val, t *specType) *Val {
	if t.Set != "" && v.K == VScalar {
		c := *v
		c.SetOf = t.Set
		return &c
	}
	if t.S == SReal && v.K == VScalar && v.T.S == SInt {
		return scalar(mk("to_real", SReal, v.T), nil)
	}
	return v
}

// ---- evaluation ----

func (x *Exec) specBool(c *SpecCtx, e *Expr) (*Term, error) {
	v, err := x.specEval(c, e)
	if err != nil {
		return nil, err
	}
	if v.K != VScalar || v.T.S != SBool {
		return nil, fmt.Errorf("expression %q is not boolean", e.String())
	}
	return v.T, nil
}

func boolVal(t *Term) *Val { return scalar(t, types.Typ[types.Bool]) }
func intVal(t *Term) *Val  { return scalar(t, types.Typ[types.Int]) }

func (x *Exec) specEval(c *SpecCtx, e *Expr) (*Val, error) {
	switch e.Kind {
	case "paren":
		return x.specEval(c, e.Args[0])
	case "int":
		return intVal(intLitStr(e.Name)), nil
	case "float":
		x.usesReal = true
		return scalar(realLitStr(e.Name), nil), nil
	case "str":
		return scalar(x.strLit(e.Name), types.Typ[types.String]), nil
	case "ident":
		return x.specIdent(c, e.Name)
	case "unary":
		v, err := x.specEval(c, e.Args[0])
		if err != nil {
			return nil, err
		}
		if e.Name == "!" {
			if v.K != VScalar || v.T.S != SBool {
				return nil, fmt.Errorf("! applied to non-boolean %q", e.Args[0].String())
			}
			return boolVal(tNot(v.T)), nil
		}
		if v.K == VFloat {
			return &Val{K: VFloat, Typ: v.Typ, F: []*Val{v.F[0], scalar(mk("-", SReal, v.F[1].T), nil)}}, nil
		}
		if v.T.S == SReal {
			return scalar(mk("-", SReal, v.T), nil), nil
		}
		return scalar(tArith("-", intLit(0), v.T), v.Typ), nil
	case "binary":
		return x.specBinary(c, e)
	case "field":
		// pkg.Const ?
		if e.Args[0].Kind == "ident" {
			if _, bound := c.vars[e.Args[0].Name]; !bound {
				if v, ok := x.pkgMember(c, e.Args[0].Name, e.Name); ok {
					return v, nil
				}
			}
		}
		b, err := x.specEval(c, e.Args[0])
		if err != nil {
			return nil, err
		}
		return x.specField(c, b, e.Name, e)
	case "index":
		b, err := x.specEval(c, e.Args[0])
		if err != nil {
			return nil, err
		}
		i, err := x.specEval(c, e.Args[1])
		if err != nil {
			return nil, err
		}
		return x.specIndex(c, b, i, e)
	case "call":
		return x.specCall(c, e)
	case "let":
		v, err := x.specEval(c, e.Args[0])
		if err != nil {
			return nil, err
		}
		return x.specEval(c.with(map[string]*Val{e.Name: v}), e.Args[1])
	case "setof":
		// set comprehension: a fresh set constant with its defining axiom (definitional extension)
		if len(e.BVars) != 1 {
			return nil, fmt.Errorf("setof takes one binder")
		}
		for v := range c.vars {
			if strings.Contains(v, "!q") {
				_ = v
			}
		}
		ty, err := x.resolveType(e.BVars[0].Type, c.pkg)
		if err != nil {
			return nil, err
		}
		x.bvN++
		sym := &Term{Op: fmt.Sprintf("%s!q%d", sanitize(e.BVars[0].Name), x.bvN), S: ty.sort()}
		var bv *Val
		if ty.Go != nil {
			bv = scalar(sym, ty.Go)
		} else {
			bv = &Val{K: VScalar, T: sym}
		}
		if c.quantDepth > 0 {
			return nil, fmt.Errorf("setof inside a quantifier is not supported (it would need a Skolem function)")
		}
		body, err := x.specBool(c.with(map[string]*Val{e.BVars[0].Name: bv}), e.Args[0])
		if err != nil {
			return nil, err
		}
		A := x.D.fresh("setof", arr(ty.sort(), SBool))
		x.asserts = append(x.asserts, tForall([]*Term{sym}, tEq(tSelect(A, sym), body), []*Term{tSelect(A, sym)}))
		return &Val{K: VScalar, T: A, SetOf: ty.sort()}, nil
	case "forall", "exists":
		if len(e.BVars) == 1 {
			if els, ok := x.C.Sets[e.BVars[0].Type]; ok {
				// quantification over a named finite set of strings: expanded into a conjunction / disjunction
				var parts []*Term
				for _, el := range els {
					c2 := c.with(map[string]*Val{e.BVars[0].Name: scalar(x.strLit(el), types.Typ[types.String])})
					t, err := x.specBool(c2, e.Args[0])
					if err != nil {
						return nil, err
					}
					parts = append(parts, t)
				}
				if e.Kind == "forall" {
					return boolVal(tAnd(parts...)), nil
				}
				return boolVal(tOr(parts...)), nil
			}
		}
		vars := map[string]*Val{}
		var bound []*Term
		var facts []*Term
		for _, bv := range e.BVars {
			ty, err := x.resolveType(bv.Type, c.pkg)
			if err != nil {
				return nil, err
			}
			x.bvN++
			sym := &Term{Op: fmt.Sprintf("%s!q%d", sanitize(bv.Name), x.bvN), S: ty.sort()}
			if ty.Go != nil {
				if k, _ := classify(ty.Go); k != TScalar {
					return nil, fmt.Errorf("quantified variable %s must have a scalar type", bv.Name)
				}
				vars[bv.Name] = scalar(sym, ty.Go)
			} else {
				vars[bv.Name] = &Val{K: VScalar, T: sym, SetOf: ty.Set}
			}
			bound = append(bound, sym)
		}
		c2 := c.with(vars)
		c2.quantDepth++
		body, err := x.specBool(c2, e.Args[0])
		if err != nil {
			return nil, err
		}
		var pats [][]*Term
		for _, p := range e.Pats {
			var pt []*Term
			for _, pe := range p {
				pv, err := x.specEval(c2, pe)
				if err != nil {
					return nil, err
				}
				if pv.K != VScalar {
					return nil, fmt.Errorf("trigger must be scalar")
				}
				pt = append(pt, pv.T)
			}
			pats = append(pats, pt)
		}
		_ = facts
		if e.Kind == "forall" {
			if len(pats) == 0 {
				pats = inferPatterns(bound, body)
			}
			return boolVal(tForall(bound, body, pats...)), nil
		}
		return boolVal(tExists(bound, body)), nil
	}
	return nil, fmt.Errorf("cannot evaluate %q", e.String())
}

func (x *Exec) localCell(c *SpecCtx, name string) (*ssa.Alloc, bool) {
	// choose the declaration visible at the loop header (declared outside the loop, latest before it),
	// or for non-loop contexts none (params denote entry values).
	if strings.HasPrefix(name, "rangeindex") && len(name) > len("rangeindex") {
		// rangeindexN: hidden index of loop N (for invariants of nested loops)
		var n int
		if _, err := fmt.Sscanf(name[len("rangeindex"):], "%d", &n); err == nil {
			for _, li := range x.loops {
				if li.ord != n {
					continue
				}
				for _, p := range li.header.Preds {
					if li.blocks[p] {
						continue
					}
					for _, in := range p.Instrs {
						if a, ok := in.(*ssa.Alloc); ok && a.Comment == "rangeindex" {
							return a, true
						}
					}
				}
			}
		}
		return nil, false
	}
	if (name == "rangeindex" || name == "idx") && c.li != nil {
		for _, p := range c.li.header.Preds {
			if c.li.blocks[p] {
				continue
			}
			for _, in := range p.Instrs {
				if a, ok := in.(*ssa.Alloc); ok && a.Comment == "rangeindex" {
					return a, true
				}
			}
		}
		return nil, false
	}
	var best *ssa.Alloc
	for _, b := range x.fn.Blocks {
		for _, in := range b.Instrs {
			a, ok := in.(*ssa.Alloc)
			if !ok || a.Comment != name {
				continue
			}
			if c.li != nil && c.li.blocks[b] && !c.inBody {
				continue
			}
			if _, live := c.cells().cells[a]; !live {
				continue
			}
			if best == nil || a.Pos() > best.Pos() {
				best = a
			}
		}
	}
	return best, best != nil
}

func (x *Exec) specIdent(c *SpecCtx, name string) (*Val, error) {
	if v, ok := c.vars[name]; ok {
		return v, nil
	}
	switch name {
	case "true":
		return boolVal(tTrue), nil
	case "false":
		return boolVal(tFalse), nil
	case "nil":
		return &Val{K: VScalar, T: &Term{Op: "$nil", S: "Nil"}}, nil
	}
	if c.locals {
		if _, isParam := x.params[name]; c.inOld && isParam {
			// parameter inside old(): its entry value (below)
		} else if c.li != nil || c.inBody || (strings.HasPrefix(name, "rangeindex") && len(name) > len("rangeindex")) {
			if a, ok := x.localCell(c, name); ok {
				v := c.cells().cells[a]
				if v.Typ == nil {
					v = retype(v, a.Type().(*types.Pointer).Elem())
				}
				return v, nil
			}
		}
		if v, ok := x.params[name]; ok {
			if v.Typ == nil {
				v = retype(v, x.paramTyp[name])
			}
			return v, nil
		}
		if c.li != nil || c.inBody {
			// a local struct variable whose address escapes lives on the heap: the name denotes (a pointer to) it
			for _, b := range x.fn.Blocks {
				for _, in := range b.Instrs {
					if a, ok := in.(*ssa.Alloc); ok && a.Heap && a.Comment == name {
						if v, ok := x.regs[a]; ok && v.K == VScalar {
							return retype(v, a.Type()), nil
						}
					}
				}
			}
		}
		if name == "result" || strings.HasPrefix(name, "result") {
			if v, ok := x.resultVar(name); ok {
				return v, nil
			}
		}
		for i, rn := range x.namedRes {
			if rn == name && rn != "" && i < len(x.results) {
				return x.results[i], nil
			}
		}
	}
	if v, ok := c.st.ghost["lg:"+name]; ok {
		return v, nil
	}
	if v, ok := c.st.ghost[name]; ok {
		return v, nil
	}
	if name == "perm" || name == "perminv" {
		if v, ok := c.st.ghost["$"+name]; ok {
			return v, nil
		}
		return nil, fmt.Errorf("`%s` is only defined after a sort.Slice call", name)
	}
	if name == "lastkey" {
		if v, ok := c.st.ghost["$lastkey"]; ok {
			return v, nil
		}
		return nil, fmt.Errorf("`lastkey` used outside a map-range loop step")
	}
	if name == "visited" && c.li != nil {
		for r := range c.li.iters {
			if d, ok := c.st.iters[r]; ok && !d.isStr {
				ks, _ := sortOfKey(d.mt.Key())
				return &Val{K: VScalar, T: d.visited, SetOf: ks}, nil
			}
		}
		return nil, fmt.Errorf("`visited` used in a loop that does not range over a map")
	}
	if els, ok := x.C.Sets[name]; ok {
		// named constant set as an array term
		t := constArr(arr(SStr, SBool), tFalse)
		for _, s := range els {
			t = tStore(t, x.strLit(s), tTrue)
		}
		return &Val{K: VScalar, T: t, SetOf: SStr}, nil
	}
	if v, ok := x.pkgMember(c, c.pkg, name); ok {
		return v, nil
	}
	return nil, fmt.Errorf("unknown identifier %q", name)
}

func (x *Exec) resultVar(name string) (*Val, bool) {
	if name == "result" {
		if len(x.results) == 1 {
			return x.results[0], true
		}
		if len(x.results) > 1 {
			return &Val{K: VTuple, F: x.results}, true
		}
		return nil, false
	}
	var i int
	if _, err := fmt.Sscanf(name, "result%d", &i); err == nil && i < len(x.results) {
		return x.results[i], true
	}
	return nil, false
}

// pkgMember resolves pkgname.Member to a constant or sentinel.
func (x *Exec) pkgMember(c *SpecCtx, pkgName, member string) (*Val, bool) {
	var pkgs []*types.Package
	if p := x.lookupPkg(pkgName); p != nil {
		pkgs = append(pkgs, p)
	}
	if cp := x.lookupPkg(c.pkg); cp != nil {
		for _, imp := range cp.Imports() {
			if imp.Name() == pkgName {
				pkgs = append(pkgs, imp)
			}
		}
	}
	if len(pkgs) == 0 {
		for _, lp := range x.P.Pkgs {
			for _, imp := range lp.Types.Imports() {
				if imp.Name() == pkgName {
					pkgs = append(pkgs, imp)
				}
			}
		}
	}
	for _, p := range pkgs {
		o := p.Scope().Lookup(member)
		if o == nil {
			continue
		}
		switch o := o.(type) {
		case *types.Const:
			return x.constToVal(o.Val(), o.Type()), true
		case *types.Var:
			if isErrorType(o.Type()) {
				pn := p.Path()
				if strings.HasPrefix(pn, modPath) {
					pn = p.Name()
				}
				return scalar(x.sentinelErr(pn+"."+member), o.Type()), true
			}
		}
	}
	return nil, false
}

func (x *Exec) constToVal(v constant.Value, t types.Type) *Val {
	switch v.Kind() {
	case constant.Bool:
		if constant.BoolVal(v) {
			return boolVal(tTrue)
		}
		return boolVal(tFalse)
	case constant.String:
		return scalar(x.strLit(constant.StringVal(v)), t)
	case constant.Int:
		return scalar(intLitStr(v.ExactString()), t)
	case constant.Float:
		x.usesReal = true
		return scalar(ratTerm(v), nil)
	}
	return scalar(x.D.fresh("const", SAny), t)
}

func derefNamed(t types.Type) types.Type {
	if t == nil {
		return nil
	}
	return types.Unalias(t)
}

func (x *Exec) specField(c *SpecCtx, b *Val, name string, e *Expr) (*Val, error) {
	t := derefNamed(b.Typ)
	if b.K == VTuple {
		return nil, fmt.Errorf("field access on tuple in %q", e.String())
	}
	if b.K == VStruct {
		st, ok := t.Underlying().(*types.Struct)
		if !ok {
			return nil, fmt.Errorf("field %s of non-struct in %q", name, e.String())
		}
		for i := 0; i < st.NumFields(); i++ {
			if st.Field(i).Name() == name {
				f := b.F[i]
				if f.Typ == nil {
					f = retype(f, st.Field(i).Type())
				}
				return f, nil
			}
		}
		return nil, fmt.Errorf("no field %s in %s", name, t)
	}
	if b.K == VScalar && t != nil {
		if pt, ok := t.Underlying().(*types.Pointer); ok {
			st, ok := pt.Elem().Underlying().(*types.Struct)
			if !ok {
				return nil, fmt.Errorf("field %s through pointer to non-struct in %q", name, e.String())
			}
			for i := 0; i < st.NumFields(); i++ {
				if st.Field(i).Name() == name {
					return x.loadObj(c.st, b.T, pt.Elem(), name, st.Field(i).Type()), nil
				}
			}
			return nil, fmt.Errorf("no field %s in %s", name, pt.Elem())
		}
	}
	if b.K == VSlice {
		switch name {
		case "arr":
			return intVal(b.F[0].T), nil
		case "off":
			return intVal(b.F[1].T), nil
		}
	}
	if b.K == VFloat {
		switch name {
		case "nan":
			return boolVal(b.F[0].T), nil
		case "val":
			return scalar(b.F[1].T, nil), nil
		}
	}
	return nil, fmt.Errorf("cannot select field %s in %q (value kind %d, type %v)", name, e.String(), b.K, b.Typ)
}

func (x *Exec) specIndex(c *SpecCtx, b, i *Val, e *Expr) (*Val, error) {
	if b.K == VSlice {
		et := b.Typ.Underlying().(*types.Slice).Elem()
		return x.loadElem(c.st, b.F[0].T, tArith("+", b.F[1].T, i.T), et, "", et), nil
	}
	if b.K == VScalar && b.Typ != nil {
		if mt, ok := b.Typ.Underlying().(*types.Map); ok {
			return x.mapGet(c.st, mt, b.T, x.specKey(i, mt.Key())), nil
		}
		if b.T.S == SStr {
			if x.strTheory {
				return intVal(mk("str.to_code", SInt, mk("str.at", SStr, b.T, i.T))), nil
			}
			return intVal(x.ufApp("byteAt", SInt, b.T, i.T)), nil
		}
	}
	if b.K == VScalar {
		if _, vs, ok := arrParts(b.T.S); ok {
			r := scalar(tSelect(b.T, i.T), nil)
			_ = vs
			return r, nil
		}
	}
	return nil, fmt.Errorf("cannot index %q", e.String())
}

func (x *Exec) specKey(i *Val, kt types.Type) *Term { return i.T }

func (x *Exec) unifyNil(a, b *Val) (*Val, *Val) {
	isNil := func(v *Val) bool { return v.K == VScalar && v.T.S == "Nil" }
	if isNil(a) && !isNil(b) {
		return x.nilLike(b), b
	}
	if isNil(b) && !isNil(a) {
		return a, x.nilLike(a)
	}
	return a, b
}

func (x *Exec) nilLike(v *Val) *Val {
	switch v.K {
	case VScalar:
		return scalar(zeroTerm(v.T.S), v.Typ)
	case VSlice:
		return &Val{K: VSlice, Typ: v.Typ, F: []*Val{intVal(intLit(0)), intVal(intLit(0)), intVal(intLit(0))}}
	}
	return v
}

func (x *Exec) numUnify(a, b *Term) (*Term, *Term) {
	if a.S == SReal && b.S == SInt {
		return a, mk("to_real", SReal, b)
	}
	if a.S == SInt && b.S == SReal {
		return mk("to_real", SReal, a), b
	}
	return a, b
}

func floatToReal(v *Val) *Val {
	if v.K == VFloat {
		return scalar(v.F[1].T, nil)
	}
	return v
}

func (x *Exec) specBinary(c *SpecCtx, e *Expr) (*Val, error) {
	op := e.Name
	if op == "in" {
		k, err := x.specEval(c, e.Args[0])
		if err != nil {
			return nil, err
		}
		if e.Args[1].Kind == "ident" {
			if els, ok := x.C.Sets[e.Args[1].Name]; ok {
				if _, shadow := c.vars[e.Args[1].Name]; !shadow {
					var ds []*Term
					for _, s := range els {
						ds = append(ds, tEq(k.T, x.strLit(s)))
					}
					return boolVal(tOr(ds...)), nil
				}
			}
		}
		m, err := x.specEval(c, e.Args[1])
		if err != nil {
			return nil, err
		}
		if m.K == VScalar && m.Typ != nil {
			if mt, ok := m.Typ.Underlying().(*types.Map); ok {
				return boolVal(x.mapHas(c.st, mt, m.T, k.T)), nil
			}
		}
		if m.K == VScalar {
			if _, vs, ok := arrParts(m.T.S); ok && vs == SBool {
				return boolVal(tSelect(m.T, k.T)), nil
			}
		}
		return nil, fmt.Errorf("`in` needs a map or set on the right in %q", e.String())
	}
	a, err := x.specEval(c, e.Args[0])
	if err != nil {
		return nil, err
	}
	// short-circuit style operators still evaluate both sides (pure)
	b, err := x.specEval(c, e.Args[1])
	if err != nil {
		return nil, err
	}
	switch op {
	case "&&", "||", "==>", "<==>":
		if a.K != VScalar || b.K != VScalar || a.T.S != SBool || b.T.S != SBool {
			return nil, fmt.Errorf("boolean operator %s on non-boolean operands in %q", op, e.String())
		}
		switch op {
		case "&&":
			return boolVal(tAnd(a.T, b.T)), nil
		case "||":
			return boolVal(tOr(a.T, b.T)), nil
		case "==>":
			return boolVal(tImp(a.T, b.T)), nil
		default:
			return boolVal(tEq(a.T, b.T)), nil
		}
	case "==", "!=":
		a, b = x.unifyNil(a, b)
		var eq *Term
		if a.K == VSlice && b.K == VSlice {
			if n, ok := isIntLit(b.F[0].T); ok && n == 0 {
				eq = tEq(a.F[0].T, intLit(0))
			} else if n, ok := isIntLit(a.F[0].T); ok && n == 0 {
				eq = tEq(b.F[0].T, intLit(0))
			} else {
				eq = valEqRaw(a, b)
			}
		} else if a.K == VScalar && b.K == VScalar {
			p, q := x.numUnify(a.T, b.T)
			if p.S != q.S && (p.S == SAny || q.S == SAny) {
				// an interface value compared with a concrete scalar: the scalar is boxed as its Go type
				// (the same injective box.<type> function MakeInterface uses)
				if p.S == SAny {
					if bx, ok := x.boxForSpec(b, q); ok {
						q = bx
					}
				} else if bx, ok := x.boxForSpec(a, p); ok {
					p = bx
				}
			}
			if p.S != q.S {
				if strings.HasPrefix(e.Args[0].Name, "vararg") || strings.HasPrefix(e.Args[1].Name, "vararg") {
					// variadic arguments have a different type at each call site a clause applies to: values of
					// different types are never equal
					eq = tFalse
				} else {
					return nil, fmt.Errorf("comparison of %s with %s in %q", p.S, q.S, e.String())
				}
			} else {
				eq = tEq(p, q)
			}
		} else if a.K == VFloat && b.K == VScalar {
			p, q := x.numUnify(a.F[1].T, b.T)
			eq = tAnd(tNot(a.F[0].T), tEq(p, q))
		} else if a.K == b.K && a.K != VScalar {
			eq = valEqRaw(a, b)
		} else {
			return nil, fmt.Errorf("cannot compare operands of %q", e.String())
		}
		if op == "!=" {
			return boolVal(tNot(eq)), nil
		}
		return boolVal(eq), nil
	case "<", "<=", ">", ">=":
		var nan *Term = tFalse
		if a.K == VFloat {
			nan = tOr(nan, a.F[0].T)
			a = floatToReal(a)
		}
		if b.K == VFloat {
			nan = tOr(nan, b.F[0].T)
			b = floatToReal(b)
		}
		if a.K != VScalar || b.K != VScalar {
			return nil, fmt.Errorf("ordering on composite values in %q", e.String())
		}
		p, q := x.numUnify(a.T, b.T)
		if p.S == SStr && !x.strTheory {
			x.axiomsOn["strlt"] = true
			lt := func(a, b *Term) *Term { return x.ufApp("strlt", SBool, a, b) }
			switch op {
			case "<":
				return boolVal(lt(p, q)), nil
			case "<=":
				return boolVal(tOr(lt(p, q), tEq(p, q))), nil
			case ">":
				return boolVal(lt(q, p)), nil
			default:
				return boolVal(tOr(lt(q, p), tEq(p, q))), nil
			}
		}
		if p.S == SStr {
			sop := map[string]string{"<": "str.<", "<=": "str.<="}[op]
			if sop == "" {
				if op == ">" {
					return boolVal(mk("str.<", SBool, q, p)), nil
				}
				return boolVal(mk("str.<=", SBool, q, p)), nil
			}
			return boolVal(mk(sop, SBool, p, q)), nil
		}
		return boolVal(tAnd(tNot(nan), tCmp(op, p, q))), nil
	case "+", "-", "*", "/", "%":
		if a.K == VFloat || b.K == VFloat {
			a, b = floatToReal(a), floatToReal(b)
		}
		if a.K != VScalar || b.K != VScalar {
			return nil, fmt.Errorf("arithmetic on composite values in %q", e.String())
		}
		if a.T.S == SStr && op == "+" {
			return scalar(x.strConcat(c.st, a.T, b.T), a.Typ), nil
		}
		p, q := x.numUnify(a.T, b.T)
		if p.S == SReal {
			x.usesReal = true
			return scalar(mk(op, SReal, p, q), nil), nil
		}
		switch op {
		case "/":
			return scalar(mk("div", SInt, p, q), a.Typ), nil
		case "%":
			return scalar(mk("mod", SInt, p, q), a.Typ), nil
		}
		return scalar(tArith(op, p, q), a.Typ), nil
	}
	return nil, fmt.Errorf("unknown operator %s", op)
}

// inferPatterns picks E-matching triggers: selects (or uninterpreted applications) whose index is exactly a
// bound variable and whose array does not mention bound variables. Each candidate is an alternative
// single-term pattern when there is one bound variable; with several variables one multi-pattern is built.
func inferPatterns(bound []*Term, body *Term) [][]*Term {
	isBound := map[string]bool{}
	for _, b := range bound {
		isBound[b.Op] = true
	}
	var mentions func(t *Term) bool
	memo := map[*Term]bool{}
	mentions = func(t *Term) bool {
		if v, ok := memo[t]; ok {
			return v
		}
		r := false
		if len(t.Args) == 0 && len(t.Bound) == 0 {
			r = isBound[t.Op]
		}
		for _, a := range t.Args {
			if mentions(a) {
				r = true
			}
		}
		memo[t] = r
		return r
	}
	// a trigger must be built from uninterpreted applications, select/store and arithmetic only: z3 rejects (with a
	// warning that used to be read as a solver error) patterns containing ite or Boolean connectives
	var clean func(t *Term) bool
	clean = func(t *Term) bool {
		switch t.Op {
		case "ite", "not", "and", "or", "=>", "=", "<", "<=", ">", ">=", "distinct", "forall", "exists":
			return false
		}
		for _, a := range t.Args {
			if !clean(a) {
				return false
			}
		}
		return true
	}
	cands := map[string][]*Term{}
	seen := map[string]bool{}
	var walk func(t *Term)
	walk = func(t *Term) {
		if len(t.Bound) > 0 {
			return // do not look inside nested quantifiers
		}
		if t.Op == "select" && len(t.Args) == 2 && t.Args[1].Op == "+" && len(t.Args[1].Args) == 2 && !mentions(t.Args[0]) {
			// index of the form (+ c v) with v bound and c free
			p, q := t.Args[1].Args[0], t.Args[1].Args[1]
			if len(q.Args) == 0 && isBound[q.Op] && !mentions(p) {
				k := t.String()
				if !seen[k] && clean(t) {
					seen[k] = true
					cands[q.Op] = append(cands[q.Op], t)
				}
			}
		}
		if t.Op == "select" && len(t.Args) == 2 && len(t.Args[1].Args) == 0 && isBound[t.Args[1].Op] && !mentions(t.Args[0]) {
			k := t.String()
			if !seen[k] && clean(t) {
				seen[k] = true
				cands[t.Args[1].Op] = append(cands[t.Args[1].Op], t)
			}
		}
		if strings.HasPrefix(t.Op, "uf.") || strings.HasPrefix(t.Op, "card.") || t.Op == "strlen" {
			// uninterpreted application with bound variables as direct arguments only
			ok := false
			var which string
			for _, a := range t.Args {
				if len(a.Args) == 0 && isBound[a.Op] {
					ok = true
					which = a.Op
				} else if mentions(a) {
					ok = false
					break
				}
			}
			if ok {
				k := t.String()
				if !seen[k] && clean(t) {
					seen[k] = true
					cands[which] = append(cands[which], t)
				}
			}
		}
		for _, a := range t.Args {
			walk(a)
		}
	}
	walk(body)
	if len(bound) == 1 {
		var out [][]*Term
		for _, c := range cands[bound[0].Op] {
			out = append(out, []*Term{c})
			if len(out) >= 12 {
				break
			}
		}
		return out
	}
	var multi []*Term
	for _, b := range bound {
		if len(cands[b.Op]) == 0 {
			return nil
		}
		multi = append(multi, cands[b.Op][0])
	}
	return [][]*Term{multi}
}

// boxForSpec boxes a concrete scalar of a spec expression into an interface value.
func (x *Exec) boxForSpec(v *Val, t *Term) (*Term, bool) {
	var gt types.Type = v.Typ
	if gt == nil {
		switch t.S {
		case SStr:
			gt = types.Typ[types.String]
		case SInt:
			gt = types.Typ[types.Int]
		case SBool:
			gt = types.Typ[types.Bool]
		default:
			return nil, false
		}
	}
	if b, ok := gt.(*types.Basic); ok && b.Info()&types.IsUntyped != 0 {
		gt = types.Default(gt)
	}
	if k, _ := classify(gt); k != TScalar {
		return nil, false
	}
	return x.ufApp("box."+typeKey(gt), SAny, t), true
}
