package main

import (
	"fmt"
	"strings"
	"unicode"
)

// Expr is a contract-language expression (Go expression syntax + spec operators).
type Expr struct {
	Kind  string // ident int float str unary binary call field index forall exists old ite
	Name  string // ident name, operator, field name, callee name
	Args  []*Expr
	BVars []BVar      // quantifier binders
	Pats  [][]*Expr   // explicit triggers
	Src   string
}

type BVar struct{ Name, Type string }

type tok struct {
	kind string // id num str op eof
	text string
	pos  int
}

type lexer struct {
	src  string
	toks []tok
}

func lexExpr(src string) ([]tok, error) {
	var toks []tok
	i := 0
	for i < len(src) {
		c := src[i]
		switch {
		case c == ' ' || c == '\t' || c == '\n':
			i++
		case unicode.IsLetter(rune(c)) || c == '_':
			j := i
			for j < len(src) && (unicode.IsLetter(rune(src[j])) || unicode.IsDigit(rune(src[j])) || src[j] == '_' || src[j] == '$') {
				j++
			}
			toks = append(toks, tok{"id", src[i:j], i})
			i = j
		case c >= '0' && c <= '9':
			j := i
			for j < len(src) && (src[j] >= '0' && src[j] <= '9' || src[j] == '.' || src[j] == '_') {
				// stop at ".." or ".ident"
				if src[j] == '.' && (j+1 >= len(src) || !(src[j+1] >= '0' && src[j+1] <= '9')) {
					break
				}
				j++
			}
			toks = append(toks, tok{"num", strings.ReplaceAll(src[i:j], "_", ""), i})
			i = j
		case c == '"':
			j := i + 1
			var b strings.Builder
			for j < len(src) && src[j] != '"' {
				if src[j] == '\\' && j+1 < len(src) {
					switch src[j+1] {
					case 'n':
						b.WriteByte('\n')
					case 't':
						b.WriteByte('\t')
					case 'r':
						b.WriteByte('\r')
					default:
						b.WriteByte(src[j+1])
					}
					j += 2
					continue
				}
				b.WriteByte(src[j])
				j++
			}
			if j >= len(src) {
				return nil, fmt.Errorf("unterminated string at %d", i)
			}
			toks = append(toks, tok{"str", b.String(), i})
			i = j + 1
		default:
			ops := []string{"<==>", "==>", "::", "||", "&&", "==", "!=", "<=", ">=", ":=", "<", ">", "+", "-", "*", "/", "%", "!", ".", "[", "]", "(", ")", ",", "{", "}", ":"}
			matched := false
			for _, op := range ops {
				if strings.HasPrefix(src[i:], op) {
					toks = append(toks, tok{"op", op, i})
					i += len(op)
					matched = true
					break
				}
			}
			if !matched {
				return nil, fmt.Errorf("unexpected character %q at %d in %q", c, i, src)
			}
		}
	}
	toks = append(toks, tok{"eof", "", len(src)})
	return toks, nil
}

type parser struct {
	toks []tok
	p    int
	src  string
}

func parseExpr(src string) (*Expr, error) {
	toks, err := lexExpr(src)
	if err != nil {
		return nil, err
	}
	ps := &parser{toks: toks, src: src}
	e, err := ps.parse(0)
	if err != nil {
		return nil, err
	}
	if ps.peek().kind != "eof" {
		return nil, fmt.Errorf("trailing input at %d (%q) in %q", ps.peek().pos, ps.peek().text, src)
	}
	e.Src = src
	return e, nil
}

func (ps *parser) peek() tok { return ps.toks[ps.p] }
func (ps *parser) next() tok { t := ps.toks[ps.p]; ps.p++; return t }
func (ps *parser) accept(text string) bool {
	if ps.peek().kind == "op" && ps.peek().text == text {
		ps.p++
		return true
	}
	return false
}
func (ps *parser) expect(text string) error {
	if !ps.accept(text) {
		return fmt.Errorf("expected %q at %d, got %q in %q", text, ps.peek().pos, ps.peek().text, ps.src)
	}
	return nil
}

var binPrec = map[string]int{
	"<==>": 1, "==>": 2, "||": 3, "&&": 4,
	"==": 5, "!=": 5, "<": 5, "<=": 5, ">": 5, ">=": 5, "in": 5,
	"+": 6, "-": 6, "*": 7, "/": 7, "%": 7,
}

func (ps *parser) parse(minPrec int) (*Expr, error) {
	lhs, err := ps.parseUnary()
	if err != nil {
		return nil, err
	}
	for {
		t := ps.peek()
		op := ""
		if t.kind == "op" {
			op = t.text
		} else if t.kind == "id" && t.text == "in" {
			op = "in"
		}
		prec, ok := binPrec[op]
		if !ok || prec < minPrec {
			return lhs, nil
		}
		ps.next()
		var rhs *Expr
		if op == "==>" || op == "<==>" {
			rhs, err = ps.parse(prec) // right assoc
		} else {
			rhs, err = ps.parse(prec + 1)
		}
		if err != nil {
			return nil, err
		}
		lhs = &Expr{Kind: "binary", Name: op, Args: []*Expr{lhs, rhs}}
	}
}

func (ps *parser) parseUnary() (*Expr, error) {
	if ps.accept("!") {
		e, err := ps.parseUnary()
		if err != nil {
			return nil, err
		}
		return &Expr{Kind: "unary", Name: "!", Args: []*Expr{e}}, nil
	}
	if ps.accept("-") {
		e, err := ps.parseUnary()
		if err != nil {
			return nil, err
		}
		return &Expr{Kind: "unary", Name: "-", Args: []*Expr{e}}, nil
	}
	return ps.parsePostfix()
}

func (ps *parser) parseTypeText() (string, error) {
	// type text up to "::" or "," or "{" at depth 0
	var b strings.Builder
	depth := 0
	for {
		t := ps.peek()
		if t.kind == "eof" {
			return "", fmt.Errorf("unterminated binder type in %q", ps.src)
		}
		if t.kind == "op" && depth == 0 && (t.text == "::" || t.text == "," || t.text == "{") {
			break
		}
		if t.kind == "op" && t.text == "[" {
			depth++
		}
		if t.kind == "op" && t.text == "]" {
			depth--
		}
		b.WriteString(t.text)
		ps.next()
	}
	return b.String(), nil
}

func (ps *parser) parsePostfix() (*Expr, error) {
	t := ps.next()
	var e *Expr
	switch t.kind {
	case "num":
		if strings.Contains(t.text, ".") {
			e = &Expr{Kind: "float", Name: t.text}
		} else {
			e = &Expr{Kind: "int", Name: t.text}
		}
	case "str":
		e = &Expr{Kind: "str", Name: t.text}
	case "id":
		switch t.text {
		case "let":
			// let x := e :: body
			nm := ps.next()
			if nm.kind != "id" {
				return nil, fmt.Errorf("let: name expected in %q", ps.src)
			}
			if err := ps.expect(":="); err != nil {
				return nil, err
			}
			val, err := ps.parse(0)
			if err != nil {
				return nil, err
			}
			if err := ps.expect("::"); err != nil {
				return nil, err
			}
			body, err := ps.parse(0)
			if err != nil {
				return nil, err
			}
			return &Expr{Kind: "let", Name: nm.text, Args: []*Expr{val, body}}, nil
		case "forall", "exists", "setof":
			q := &Expr{Kind: t.text}
			paren := false
			if t.text == "setof" && ps.accept("(") {
				paren = true
			}
			for {
				nm := ps.next()
				if nm.kind != "id" {
					return nil, fmt.Errorf("binder name expected at %d in %q", nm.pos, ps.src)
				}
				ty, err := ps.parseTypeText()
				if err != nil {
					return nil, err
				}
				q.BVars = append(q.BVars, BVar{nm.text, ty})
				if ps.accept(",") {
					continue
				}
				break
			}
			for ps.accept("{") {
				var pat []*Expr
				for {
					pe, err := ps.parse(0)
					if err != nil {
						return nil, err
					}
					pat = append(pat, pe)
					if !ps.accept(",") {
						break
					}
				}
				if err := ps.expect("}"); err != nil {
					return nil, err
				}
				q.Pats = append(q.Pats, pat)
			}
			if err := ps.expect("::"); err != nil {
				return nil, err
			}
			body, err := ps.parse(0)
			if err != nil {
				return nil, err
			}
			q.Args = []*Expr{body}
			if paren {
				if err := ps.expect(")"); err != nil {
					return nil, err
				}
			}
			return q, nil
		default:
			e = &Expr{Kind: "ident", Name: t.text}
		}
	case "op":
		if t.text == "(" {
			inner, err := ps.parse(0)
			if err != nil {
				return nil, err
			}
			if err := ps.expect(")"); err != nil {
				return nil, err
			}
			e = &Expr{Kind: "paren", Args: []*Expr{inner}}
		} else {
			return nil, fmt.Errorf("unexpected %q at %d in %q", t.text, t.pos, ps.src)
		}
	default:
		return nil, fmt.Errorf("unexpected end of expression in %q", ps.src)
	}
	for {
		switch {
		case ps.accept("."):
			nm := ps.next()
			if nm.kind == "op" && nm.text == "*" {
				nm = tok{"id", "*", nm.pos}
			}
			if nm.kind != "id" {
				return nil, fmt.Errorf("field name expected at %d in %q", nm.pos, ps.src)
			}
			e = &Expr{Kind: "field", Name: nm.text, Args: []*Expr{e}}
		case ps.accept("["):
			// index or slice-free
			if ps.peek().kind == "op" && ps.peek().text == "*" && ps.toks[ps.p+1].kind == "op" && ps.toks[ps.p+1].text == "]" {
				ps.next()
				ps.next()
				e = &Expr{Kind: "index", Args: []*Expr{e, {Kind: "ident", Name: "*"}}}
				continue
			}
			idx, err := ps.parse(0)
			if err != nil {
				return nil, err
			}
			if err := ps.expect("]"); err != nil {
				return nil, err
			}
			e = &Expr{Kind: "index", Args: []*Expr{e, idx}}
		case ps.peek().kind == "op" && ps.peek().text == "(" && (e.Kind == "ident" || e.Kind == "field"):
			ps.next()
			var args []*Expr
			if !ps.accept(")") {
				for {
					a, err := ps.parse(0)
					if err != nil {
						return nil, err
					}
					args = append(args, a)
					if ps.accept(",") {
						continue
					}
					if err := ps.expect(")"); err != nil {
						return nil, err
					}
					break
				}
			}
			name := e.Name
			if e.Kind == "field" {
				// pkg.Func(...) form or method-style time ops
				if e.Args[0].Kind == "ident" {
					name = e.Args[0].Name + "." + e.Name
				} else {
					return nil, fmt.Errorf("method call syntax not supported in contracts: %q", ps.src)
				}
			}
			e = &Expr{Kind: "call", Name: name, Args: args}
		default:
			return e, nil
		}
	}
}

func (e *Expr) String() string {
	switch e.Kind {
	case "ident", "int", "float":
		return e.Name
	case "str":
		return fmt.Sprintf("%q", e.Name)
	case "paren":
		return "(" + e.Args[0].String() + ")"
	case "unary":
		return e.Name + e.Args[0].String()
	case "binary":
		return e.Args[0].String() + " " + e.Name + " " + e.Args[1].String()
	case "field":
		return e.Args[0].String() + "." + e.Name
	case "index":
		return e.Args[0].String() + "[" + e.Args[1].String() + "]"
	case "call":
		var as []string
		for _, a := range e.Args {
			as = append(as, a.String())
		}
		return e.Name + "(" + strings.Join(as, ", ") + ")"
	case "forall", "exists", "setof":
		var bs []string
		for _, b := range e.BVars {
			bs = append(bs, b.Name+" "+b.Type)
		}
		return e.Kind + " " + strings.Join(bs, ", ") + " :: " + e.Args[0].String()
	}
	return "?"
}
