package main

import (
	"fmt"
	"go/token"
	"go/types"

	"golang.org/x/tools/go/ssa"
)

func (x *Exec) noPanic() bool { return x.fc == nil || x.fc.NoPanic }

func (x *Exec) execInstr(st *State, in ssa.Instruction) error {
	switch in := in.(type) {
	case *ssa.DebugRef:
		return nil
	case *ssa.Alloc:
		x.execAlloc(st, in)
	case *ssa.Store:
		addr := x.val(st, in.Addr)
		v := x.val(st, in.Val)
		x.store(st, addr, v, in.Val.Type(), in.Pos())
	case *ssa.UnOp:
		x.execUnOp(st, in)
	case *ssa.BinOp:
		x.setReg(in, x.binop(st, in.Op, x.val(st, in.X), x.val(st, in.Y), in.X.Type(), in.Pos()))
	case *ssa.FieldAddr:
		base := x.val(st, in.X)
		pt := in.X.Type().Underlying().(*types.Pointer).Elem()
		ft := pt.Underlying().(*types.Struct).Field(in.Field).Type()
		x.checkGuarded(st, pt, in.Field, in)
		switch base.K {
		case VPath:
			p := *base.Path
			p.Sel = append(append([]int(nil), p.Sel...), in.Field)
			p.T = ft
			x.setReg(in, &Val{K: VPath, Path: &p})
		case VScalar:
			if x.noPanic() {
				x.oblige(st, "nopanic", "nil-deref", tNot(tEq(base.T, intLit(0))), in.Pos(), "pointer is non-nil at field access", nil)
			}
			x.assume(st, tNot(tEq(base.T, intLit(0))))
			if isOpaqueNamed(pt) {
				x.setReg(in, &Val{K: VPath, Path: &Path{T: ft, Opaque: true}})
				return nil
			}
			x.setReg(in, &Val{K: VPath, Path: &Path{Ref: base.T, RefT: pt, Sel: []int{in.Field}, T: ft}})
		default:
			x.unsupported("FieldAddr on value kind %d", base.K)
		}
	case *ssa.Field:
		base := x.val(st, in.X)
		if base.K != VStruct {
			if base.K == VScalar && base.T.S == SAny {
				x.setReg(in, x.havocVal(in.Type(), "field"))
				return nil
			}
			x.unsupported("Field on non-struct value")
		}
		x.setReg(in, base.F[in.Field])
	case *ssa.IndexAddr:
		x.execIndexAddr(st, in)
	case *ssa.Index:
		base := x.val(st, in.X)
		idx := x.val(st, in.Index)
		if base.K == VScalar && base.T.S == SStr {
			x.setReg(in, scalar(x.byteAt(st, base.T, idx.T, in.Pos()), in.Type()))
		} else {
			x.setReg(in, x.havocVal(in.Type(), "index"))
		}
	case *ssa.Lookup:
		x.execLookup(st, in)
	case *ssa.MapUpdate:
		m := x.val(st, in.Map)
		mt := in.Map.Type().Underlying().(*types.Map)
		k := x.val(st, in.Key)
		v := x.val(st, in.Value)
		if x.noPanic() {
			x.oblige(st, "nopanic", "nil-map-write", tNot(tEq(m.T, intLit(0))), in.Pos(), "map is non-nil at write", nil)
		}
		x.assume(st, tNot(tEq(m.T, intLit(0))))
		x.mapPut(st, mt, m.T, x.keyTerm(k), x.coerce(v, mt.Elem()))
	case *ssa.Extract:
		tup := x.val(st, in.Tuple)
		if tup.K != VTuple {
			x.unsupported("Extract on non-tuple")
		}
		x.setReg(in, tup.F[in.Index])
	case *ssa.Phi:
		// evaluated at block entry using edge conditions
		b := in.Block()
		var v *Val
		for i := len(in.Edges) - 1; i >= 0; i-- {
			p := b.Preds[i]
			k := [2]int{p.Index, b.Index}
			cond, ok := x.edgeCond[k]
			if !ok {
				continue
			}
			ev := x.val(st, in.Edges[i])
			if v == nil {
				v = ev
			} else {
				v = x.iteVal(cond, ev, v)
			}
		}
		if v == nil {
			x.unsupported("phi with no evaluated incoming edge")
		}
		x.setReg(in, v)
	case *ssa.Convert:
		x.setReg(in, x.convert(st, x.val(st, in.X), in.X.Type(), in.Type(), in.Pos()))
	case *ssa.ChangeType:
		v := x.val(st, in.X)
		x.setReg(in, retype(v, in.Type()))
	case *ssa.MakeInterface:
		if x.fc != nil && x.fc.Encodable {
			x.obligeEncodable(st, x.val(st, in.X), in.X.Type(), in.Pos())
		}
		if al, ok := in.X.(*ssa.Alloc); ok && al.Heap {
			// the address of a heap-allocated struct local is boxed (row.Scan(&nullTime)): callees may write it from now on
			if et := al.Type().(*types.Pointer).Elem(); !isOpaqueNamed(et) {
				if k, _ := classify(et); k == TStruct {
					x.escapedObjs = append(x.escapedObjs, al)
				}
			}
		}
		x.setReg(in, x.makeInterface(st, x.val(st, in.X), in.X.Type(), in.Type()))
	case *ssa.ChangeInterface:
		v := x.val(st, in.X)
		_, s := classify(in.Type())
		if v.K == VScalar && v.T.S == s {
			x.setReg(in, retype(v, in.Type()))
		} else {
			x.setReg(in, x.havocVal(in.Type(), "chgiface"))
		}
	case *ssa.TypeAssert:
		x.execTypeAssert(st, in)
	case *ssa.MakeMap:
		r := x.newRef(st, "map")
		mt := in.Type().Underlying().(*types.Map)
		ks, err := sortOfKey(mt.Key())
		if err != nil {
			x.unsupported("%v", err)
		}
		dk := mapDomKey(mt)
		if x.absMaps[dk] {
			x.havocAbstractMap(st, mt)
			x.setReg(in, scalar(r, in.Type()))
			return nil
		}
		dh := x.heapGet(st, dk, arr(SInt, arr(ks, SBool)))
		x.heapSet(st, dk, tStore(dh, r, constArr(arr(ks, SBool), tFalse)))
		lh := x.heapGet(st, mapLenKey(mt), arr(SInt, SInt))
		x.heapSet(st, mapLenKey(mt), tStore(lh, r, intLit(0)))
		for _, lf := range leavesOf(mt.Elem()) {
			key := mapValKey(mt, lf.Path)
			h := x.heapGet(st, key, arr(SInt, arr(ks, lf.S)))
			x.heapSet(st, key, tStore(h, r, constArr(arr(ks, lf.S), zeroTerm(lf.S))))
		}
		x.setReg(in, scalar(r, in.Type()))
	case *ssa.MakeSlice:
		if k, _ := classify(in.Type()); k == TScalar {
			// []byte: a fresh byte string of the requested length
			bv := x.havocVal(in.Type(), "bytes")
			x.assume(st, tEq(x.strLen(bv.T), x.val(st, in.Len).T))
			x.freshBytes[bv.T.String()] = true
			x.regs[in] = retype(bv, in.Type()) // not renamed: identity matters for the copy idiom
			return nil
		}
		r := x.newRef(st, "slice")
		ln := x.val(st, in.Len).T
		et := in.Type().Underlying().(*types.Slice).Elem()
		for _, lf := range leavesOf(et) {
			key := sliceKey(et, lf.Path)
			h := x.heapGet(st, key, arr(SInt, arr(SInt, lf.S)))
			x.heapSet(st, key, tStore(h, r, constArr(arr(SInt, lf.S), zeroTerm(lf.S))))
		}
		x.setReg(in, &Val{K: VSlice, Typ: in.Type(), F: []*Val{scalar(r, nil), scalar(intLit(0), nil), scalar(ln, nil)}})
	case *ssa.Slice:
		x.execSlice(st, in)
	case *ssa.MakeClosure:
		var bs []*Val
		for _, b := range in.Bindings {
			bs = append(bs, x.val(st, b))
		}
		x.setReg(in, &Val{K: VClosure, Clo: &Closure{Fn: in.Fn.(*ssa.Function), Bindings: bs}, Typ: in.Type()})
	case *ssa.Call:
		v, err := x.execCall(st, &in.Call, in, in.Pos())
		if err != nil {
			return err
		}
		if v != nil {
			x.setReg(in, v)
		} else {
			x.setReg(in, unitVal)
		}
	case *ssa.Defer:
		d := &deferred{instr: in}
		for _, a := range in.Call.Args {
			d.args = append(d.args, x.val(st, a))
		}
		if !in.Call.IsInvoke() {
			if _, isFn := in.Call.Value.(*ssa.Function); !isFn {
				if _, isB := in.Call.Value.(*ssa.Builtin); !isB {
					d.fnVal = x.val(st, in.Call.Value)
				}
			}
		} else {
			d.fnVal = x.val(st, in.Call.Value)
		}
		st.defers = append(st.defers, d)
	case *ssa.RunDefers:
		for i := len(st.defers) - 1; i >= 0; i-- {
			d := st.defers[i]
			if _, err := x.execCallWith(st, &d.instr.Call, d.args, d.fnVal, nil, d.instr.Pos()); err != nil {
				return err
			}
		}
		st.defers = nil
	case *ssa.Range:
		x.execRange(st, in)
	case *ssa.Next:
		x.execNext(st, in)
	case *ssa.Go:
		// goroutine creation is not modelled: arguments escape
		x.noteDropped("go statement")
	case *ssa.Send:
		x.noteDropped("channel send")
	case *ssa.Select:
		x.noteDropped("select")
		sv := x.havocVal(in.Type(), "select")
		if sv.K == VTuple && len(sv.F) > 0 && sv.F[0].K == VScalar {
			lo := int64(0)
			if !in.Blocking {
				lo = -1
			}
			x.assume(st, tAnd(tCmp(">=", sv.F[0].T, intLit(lo)), tCmp("<", sv.F[0].T, intLit(int64(len(in.States))))))
		}
		x.setReg(in, sv)
	case *ssa.MakeChan:
		x.setReg(in, x.havocVal(in.Type(), "chan"))
	case *ssa.SliceToArrayPointer, *ssa.MultiConvert:
		x.setReg(in.(ssa.Value), x.havocVal(in.(ssa.Value).Type(), "conv"))
	default:
		x.unsupported("instruction %T", in)
	}
	return nil
}

func (x *Exec) noteDropped(what string) {
	x.dropped[what] = true
}

func retype(v *Val, t types.Type) *Val {
	c := *v
	c.Typ = t
	return &c
}

func (x *Exec) iteVal(c *Term, a, b *Val) *Val {
	if a == b {
		return a
	}
	if !isSMTVal(a) || !isSMTVal(b) {
		x.unsupported("conditional merge of executor-level values")
	}
	return zipVal(a, b, func(p, q *Term) *Term { return tIte(c, p, q) })
}

func (x *Exec) execAlloc(st *State, in *ssa.Alloc) {
	et := in.Type().(*types.Pointer).Elem()
	k, _ := classify(et)
	if in.Heap && k == TScalar && addrStored(in) {
		// a scalar local whose address is stored into memory (p.f = &v): a boxed cell on the heap
		r := x.newRef(st, in.Comment)
		x.storeObj(st, r, et, "", et, zeroVal(et))
		x.setReg(in, scalar(r, in.Type()))
		return
	}
	if in.Heap && k == TStruct {
		r := x.newRef(st, in.Comment)
		x.storeObj(st, r, et, "", et, zeroVal(et))
		x.setReg(in, scalar(r, in.Type()))
		return
	}
	if _, isStruct := et.Underlying().(*types.Struct); in.Heap && isStruct && isOpaqueNamed(et) {
		// heap object of an external (opaque) struct type: a fresh reference; its scalar fields (which assumed
		// contracts may name, e.g. strings.Builder's buffer) start at their zero values
		r := x.newRef(st, in.Comment)
		if stt, ok := et.Underlying().(*types.Struct); ok {
			for i := 0; i < stt.NumFields(); i++ {
				f := stt.Field(i)
				if fk, fs := classify(f.Type()); fk == TScalar && (fs == SStr || fs == SInt || fs == SBool) {
					key := ptrKey(et, f.Name())
					h := x.heapGet(st, key, arr(SInt, fs))
					x.heapSet(st, key, tStore(h, r, zeroTerm(fs)))
				}
			}
		}
		x.setReg(in, scalar(r, in.Type()))
		return
	}
	if at, isArr := et.Underlying().(*types.Array); isArr && !isByteArr(et) {
		// fixed-size arrays (varargs buffers, small literals): a fresh backing array of known length
		if ek, _ := classify(at.Elem()); ek == TScalar || ek == TStruct || ek == TSlice || ek == TFloat {
			r := x.newRef(st, "array")
			for _, lf := range leavesOf(at.Elem()) {
				key := sliceKey(at.Elem(), lf.Path)
				h := x.heapGet(st, key, arr(SInt, arr(SInt, lf.S)))
				x.heapSet(st, key, tStore(h, r, constArr(arr(SInt, lf.S), zeroTerm(lf.S))))
			}
			st.cells[in] = &Val{K: VSlice, Typ: types.NewSlice(at.Elem()), F: []*Val{scalar(r, nil), scalar(intLit(0), nil), scalar(intLit(at.Len()), nil)}}
			x.setReg(in, &Val{K: VPath, Path: &Path{Cell: in, T: et}})
			return
		}
		st.cells[in] = &Val{K: VScalar, T: x.D.fresh("array", SAny), Typ: et}
		x.setReg(in, &Val{K: VPath, Path: &Path{Cell: in, T: et}})
		return
	}
	st.cells[in] = zeroVal(et)
	x.setReg(in, &Val{K: VPath, Path: &Path{Cell: in, T: et}})
}

// addrStored reports whether the address produced by the Alloc is itself stored into memory.
func addrStored(a *ssa.Alloc) bool {
	if a.Referrers() == nil {
		return false
	}
	for _, r := range *a.Referrers() {
		if st, ok := r.(*ssa.Store); ok && st.Val == a {
			return true
		}
	}
	return false
}

func isByteArr(t types.Type) bool {
	a, ok := t.Underlying().(*types.Array)
	return ok && isByte(a.Elem())
}

// coerce adapts a value to the static type expected at a store (nil constants etc.).
func (x *Exec) coerce(v *Val, t types.Type) *Val {
	if v.K == VClosure || v.K == VPath {
		// executor-level value flowing into SMT-level storage: opaque
		k, s := classify(t)
		if k == TScalar {
			if v.K == VClosure && v.Clo.Fn != nil {
				return scalar(x.funcConst(v.Clo.Fn), t)
			}
			if v.K == VPath && v.Path.Ref != nil && len(v.Path.Sel) == 0 && v.Path.Arr == nil {
				return scalar(v.Path.Ref, t)
			}
			if v.K == VPath {
				x.unsupported("address of a local or interior location escapes into modelled storage (%s)", s)
			}
			return scalar(x.D.fresh("opaque", s), t)
		}
	}
	return v
}

func (x *Exec) funcConst(f *ssa.Function) *Term {
	name := "fn." + sanitize(f.String())
	return x.D.declareConst(name, SAny)
}

func (x *Exec) store(st *State, addr, v *Val, vt types.Type, pos token.Pos) {
	switch addr.K {
	case VPath:
		x.storePath(st, addr.Path, v)
	case VScalar:
		// pointer value
		if addr.T.S != SInt {
			return // opaque pointer: ignore
		}
		pt, ok := types.Unalias(addr.Typ).Underlying().(*types.Pointer)
		var et types.Type
		if ok {
			et = pt.Elem()
		} else {
			et = vt
		}
		x.assume(st, tNot(tEq(addr.T, intLit(0))))
		x.storeObj(st, addr.T, et, "", et, x.coerce(v, et))
	default:
		x.unsupported("store through value kind %d", addr.K)
	}
}

func leafPrefix(rootT types.Type, sel []int) (string, types.Type) {
	prefix := ""
	t := rootT
	for _, f := range sel {
		st := t.Underlying().(*types.Struct)
		fl := st.Field(f)
		if prefix == "" {
			prefix = fl.Name()
		} else {
			prefix += "." + fl.Name()
		}
		t = fl.Type()
	}
	return prefix, t
}

func (x *Exec) storePath(st *State, p *Path, v *Val) {
	switch {
	case p.Cell != nil:
		cur, ok := st.cells[p.Cell]
		if !ok {
			cur = zeroVal(p.Cell.Type().(*types.Pointer).Elem())
		}
		if cur.K == VScalar && cur.T.S == SAny && len(p.Sel) == 0 && p.Idx != nil {
			return // opaque array element store
		}
		rootT := p.Cell.Type().(*types.Pointer).Elem()
		_, lt := leafPrefix(rootT, p.Sel)
		st.cells[p.Cell] = updateSel(cur, p.Sel, x.coerce(v, lt))
	case p.Global != nil:
		// writes to globals are not modelled
		x.noteDropped("write to package-level variable " + p.Global.Name())
	case p.Ref != nil:
		prefix, lt := leafPrefix(p.RefT, p.Sel)
		x.storeObj(st, p.Ref, p.RefT, prefix, lt, x.coerce(v, lt))
	case p.Arr != nil:
		prefix, lt := leafPrefix(p.ElemT, p.Sel)
		x.storeElem(st, p.Arr, p.Idx, p.ElemT, prefix, lt, x.coerce(v, lt))
	default:
		// opaque array element
	}
}

func updateSel(cur *Val, sel []int, v *Val) *Val {
	if len(sel) == 0 {
		return v
	}
	if cur.K == VScalar && cur.T.S == SAny {
		return cur // store into a field of an opaque value: not modelled
	}
	if cur.K != VStruct {
		panic(unsupported("field store into non-struct cell"))
	}
	n := &Val{K: VStruct, Typ: cur.Typ, F: append([]*Val(nil), cur.F...)}
	n.F[sel[0]] = updateSel(cur.F[sel[0]], sel[1:], v)
	return n
}

func (x *Exec) loadPath(st *State, p *Path) *Val {
	switch {
	case p.Cell != nil:
		cur, ok := st.cells[p.Cell]
		if !ok {
			cur = zeroVal(p.Cell.Type().(*types.Pointer).Elem())
		}
		if cur.K == VScalar && cur.T.S == SAny && p.Opaque {
			return x.havocVal(p.T, "arrelem")
		}
		for _, f := range p.Sel {
			if cur.K != VStruct {
				if cur.K == VScalar && cur.T.S == SAny {
					// field of an opaque (external) struct value: unconstrained
					hv := x.havocVal(p.T, "opaque.field")
					x.assume(st, x.typeFacts(hv, p.T))
					return hv
				}
				x.unsupported("field load from non-struct cell")
			}
			cur = cur.F[f]
		}
		return cur
	case p.Global != nil:
		return x.loadGlobal(p)
	case p.Ref != nil:
		prefix, lt := leafPrefix(p.RefT, p.Sel)
		return x.loadObj(st, p.Ref, p.RefT, prefix, lt)
	case p.Arr != nil:
		prefix, lt := leafPrefix(p.ElemT, p.Sel)
		return x.loadElem(st, p.Arr, p.Idx, p.ElemT, prefix, lt)
	}
	return x.havocVal(p.T, "opaque")
}

func (x *Exec) loadGlobal(p *Path) *Val {
	g := p.Global
	root, ok := x.globals[g]
	if !ok {
		et := g.Type().(*types.Pointer).Elem()
		if isErrorType(et) {
			root = scalar(x.sentinelErr(globalName(g)), et)
		} else {
			gn := "g." + sanitize(globalName(g))
			root = buildVal(et, "", func(path string, s Sort, _ types.Type) *Term {
				n := gn
				if path != "" {
					n += "." + sanitize(path)
				}
				return x.D.declareConst(n, s)
			})
			x.globalsRead[globalName(g)] = true
		}
		x.globals[g] = root
	}
	cur := root
	for _, f := range p.Sel {
		cur = cur.F[f]
	}
	return cur
}

func globalName(g *ssa.Global) string {
	pk := ""
	if g.Pkg != nil {
		pk = g.Pkg.Pkg.Path()
		if len(pk) > len(modPath)+10 && pk[:len(modPath)] == modPath {
			pk = g.Pkg.Pkg.Name()
		}
	}
	return pk + "." + g.Name()
}

func (x *Exec) sentinelErr(name string) *Term {
	if t, ok := x.sentinel[name]; ok {
		return t
	}
	t := x.D.declareConst("err."+sanitize(name), SErr)
	x.sentinel[name] = t
	return t
}

func (x *Exec) execUnOp(st *State, in *ssa.UnOp) {
	v := x.val(st, in.X)
	switch in.Op {
	case token.MUL: // load
		switch v.K {
		case VPath:
			lv := retypeIfNil(x.loadPath(st, v.Path), in.Type())
			if v.Path.Ref != nil || v.Path.Arr != nil {
				x.assume(st, x.refFacts(st, lv, in.Type()))
				x.assume(st, x.typeFacts(lv, in.Type()))
			}
			x.setReg(in, lv)
		case VScalar:
			if v.T.S != SInt {
				x.setReg(in, x.havocVal(in.Type(), "load"))
				return
			}
			et := in.Type()
			if x.noPanic() {
				x.oblige(st, "nopanic", "nil-deref", tNot(tEq(v.T, intLit(0))), in.Pos(), "pointer is non-nil at load", nil)
			}
			x.assume(st, tNot(tEq(v.T, intLit(0))))
			lv := x.loadObj(st, v.T, et, "", et)
			x.assume(st, x.refFacts(st, lv, et))
			x.assume(st, x.typeFacts(lv, et))
			x.setReg(in, lv)
		default:
			x.unsupported("load through value kind %d", v.K)
		}
	case token.NOT:
		x.setReg(in, scalar(tNot(v.T), in.Type()))
	case token.SUB:
		if v.K == VFloat {
			x.setReg(in, &Val{K: VFloat, Typ: in.Type(), F: []*Val{v.F[0], scalar(mk("-", SReal, v.F[1].T), nil)}})
		} else {
			// negation is exact except at the minimum of a 64-bit signed type, where it wraps to itself (-MinInt64 == MinInt64)
			neg := x.arith(st, "-", intLit(0), v.T, in.Type(), in.Pos())
			if b, ok := types.Unalias(in.Type()).Underlying().(*types.Basic); ok && (b.Kind() == types.Int64 || b.Kind() == types.Int) && !x.overflow {
				lo := intLitStr("-9223372036854775808")
				neg = scalar(tIte(tEq(v.T, lo), lo, neg.T), in.Type())
			}
			x.setReg(in, neg)
		}
	case token.ARROW:
		x.noteDropped("channel receive")
		x.setReg(in, x.havocVal(in.Type(), "recv"))
	case token.XOR:
		x.setReg(in, scalar(x.ufApp("bits.not", SInt, v.T), in.Type()))
	default:
		x.unsupported("unary op %s", in.Op)
	}
}

func retypeIfNil(v *Val, t types.Type) *Val {
	if v.Typ == nil {
		return retype(v, t)
	}
	return v
}

func (x *Exec) execIndexAddr(st *State, in *ssa.IndexAddr) {
	base := x.val(st, in.X)
	idx := x.val(st, in.Index).T
	switch base.K {
	case VSlice:
		et := in.X.Type().Underlying().(*types.Slice).Elem()
		if x.noPanic() {
			x.oblige(st, "nopanic", "index", tAnd(tCmp(">=", idx, intLit(0)), tCmp("<", idx, base.F[2].T)), in.Pos(), "index within slice bounds", nil)
		}
		x.assume(st, tAnd(tCmp(">=", idx, intLit(0)), tCmp("<", idx, base.F[2].T)))
		x.setReg(in, &Val{K: VPath, Path: &Path{Arr: base.F[0].T, Idx: tArith("+", base.F[1].T, idx), ElemT: et, T: et}})
	case VPath:
		if base.Path.Cell != nil && len(base.Path.Sel) == 0 {
			if cur, ok := st.cells[base.Path.Cell]; ok && cur.K == VSlice {
				et := cur.Typ.Underlying().(*types.Slice).Elem()
				if x.noPanic() {
					x.oblige(st, "nopanic", "index", tAnd(tCmp(">=", idx, intLit(0)), tCmp("<", idx, cur.F[2].T)), in.Pos(), "index within array bounds", nil)
				}
				x.setReg(in, &Val{K: VPath, Path: &Path{Arr: cur.F[0].T, Idx: tArith("+", cur.F[1].T, idx), ElemT: et, T: et}})
				return
			}
		}
		// pointer to array (varargs buffer): opaque element
		p := *base.Path
		p.Opaque = true
		p.Idx = idx
		p.T = in.Type().(*types.Pointer).Elem()
		x.setReg(in, &Val{K: VPath, Path: &p})
	case VScalar:
		// []byte element address or opaque
		x.setReg(in, &Val{K: VPath, Path: &Path{T: in.Type().(*types.Pointer).Elem(), Opaque: true}})
	default:
		x.unsupported("IndexAddr on value kind %d", base.K)
	}
}

func (x *Exec) keyTerm(k *Val) *Term {
	if k.K != VScalar {
		x.unsupported("non-scalar map key")
	}
	return k.T
}

func (x *Exec) execLookup(st *State, in *ssa.Lookup) {
	base := x.val(st, in.X)
	if mt, ok := in.X.Type().Underlying().(*types.Map); ok {
		k := x.keyTerm(x.val(st, in.Index))
		if _, err := sortOfKey(mt.Key()); err != nil {
			x.unsupported("%v", err)
		}
		// nil map reads as empty
		v := x.mapGet(st, mt, base.T, k)
		has := x.mapHas(st, mt, base.T, k)
		x.assumeMapWF(st, mt, base.T, k)
		x.assume(st, x.refFacts(st, v, mt.Elem()))
		x.assume(st, x.typeFacts(v, mt.Elem()))
		if in.CommaOk {
			x.setReg(in, &Val{K: VTuple, Typ: in.Type(), F: []*Val{v, scalar(has, nil)}})
		} else {
			x.setReg(in, v)
		}
		return
	}
	// string index
	idx := x.val(st, in.Index).T
	x.setReg(in, scalar(x.byteAt(st, base.T, idx, in.Pos()), in.Type()))
}

// assumeMapWF states the representation facts of the (dom,val) map encoding for key k:
// absent keys read as the zero value; the nil map is empty.
func (x *Exec) assumeMapWF(st *State, mt *types.Map, m, k *Term) {
	has := x.mapHas(st, mt, m, k)
	z := zeroVal(mt.Elem())
	v := x.mapGet(st, mt, m, k)
	x.assume(st, tImp(tNot(has), valEqRaw(v, z)))
	x.assume(st, tImp(tEq(m, intLit(0)), tNot(has)))
	x.assume(st, tCmp(">=", x.mapLen(st, mt, m), intLit(0)))
	x.assume(st, tImp(has, tCmp(">", x.mapLen(st, mt, m), intLit(0))))
}

// valEqRaw is structural equality of all leaves (floats compared as records).
func valEqRaw(a, b *Val) *Term {
	var cs []*Term
	var rec func(p, q *Val)
	rec = func(p, q *Val) {
		switch p.K {
		case VScalar:
			cs = append(cs, tEq(p.T, q.T))
		case VUnit:
		default:
			for i := range p.F {
				rec(p.F[i], q.F[i])
			}
		}
	}
	rec(a, b)
	return tAnd(cs...)
}

func (x *Exec) byteAt(st *State, s, i *Term, pos token.Pos) *Term {
	if x.noPanic() {
		x.oblige(st, "nopanic", "string-index", tAnd(tCmp(">=", i, intLit(0)), tCmp("<", i, x.strLen(s))), pos, "index within string bounds", nil)
	}
	x.assume(st, tAnd(tCmp(">=", i, intLit(0)), tCmp("<", i, x.strLen(s))))
	if x.strTheory {
		return mk("str.to_code", SInt, mk("str.at", SStr, s, i))
	}
	b := x.ufApp("byteAt", SInt, s, i)
	x.assume(st, tAnd(tCmp(">=", b, intLit(0)), tCmp("<=", b, intLit(255))))
	return b
}

func (x *Exec) strLen(s *Term) *Term {
	return mk("strlen", SInt, s)
}

// ufApp applies an uninterpreted function, declaring it on first use.
func (x *Exec) ufApp(name string, res Sort, args ...*Term) *Term {
	var as []Sort
	for _, a := range args {
		as = append(as, a.S)
	}
	sym := "uf." + sanitize(name)
	x.D.declareFun(sym, as, res)
	return mk(sym, res, args...)
}

func (x *Exec) execSlice(st *State, in *ssa.Slice) {
	base := x.val(st, in.X)
	var lo, hi *Term
	if in.Low != nil {
		lo = x.val(st, in.Low).T
	}
	if in.High != nil {
		hi = x.val(st, in.High).T
	}
	switch base.K {
	case VSlice:
		if lo == nil {
			lo = intLit(0)
		}
		if hi == nil {
			hi = base.F[2].T
		}
		if x.noPanic() {
			// hi may go up to cap; cap is not modelled, so only lo<=hi and lo>=0 are checked, plus hi<=len when hi given explicitly is NOT required by Go (cap). We check the weaker safe condition.
			x.oblige(st, "nopanic", "slice", tAnd(tCmp(">=", lo, intLit(0)), tCmp("<=", lo, hi)), in.Pos(), "slice bounds ordered", nil)
		}
		x.assume(st, tAnd(tCmp(">=", lo, intLit(0)), tCmp("<=", lo, hi)))
		x.setReg(in, x.subSlice(st, base, lo, hi, in.Type()))
	case VScalar:
		if base.T.S == SStr {
			// string / []byte slicing
			if lo == nil {
				lo = intLit(0)
			}
			if hi == nil {
				hi = x.strLen(base.T)
			}
			if x.noPanic() {
				x.oblige(st, "nopanic", "slice", tAnd(tCmp(">=", lo, intLit(0)), tCmp("<=", lo, hi), tCmp("<=", hi, x.strLen(base.T))), in.Pos(), "substring bounds", nil)
			}
			x.assume(st, tAnd(tCmp(">=", lo, intLit(0)), tCmp("<=", lo, hi), tCmp("<=", hi, x.strLen(base.T))))
			var r *Term
			if x.strTheory {
				r = mk("str.substr", SStr, base.T, lo, tArith("-", hi, lo))
			} else {
				r = x.ufApp("substr", SStr, base.T, lo, hi)
				x.assume(st, tEq(x.strLen(r), tArith("-", hi, lo)))
			}
			x.setReg(in, scalar(r, in.Type()))
			return
		}
		x.setReg(in, x.havocVal(in.Type(), "slice"))
	case VPath:
		if base.Path.Cell != nil && len(base.Path.Sel) == 0 {
			if cur, ok := st.cells[base.Path.Cell]; ok && cur.K == VSlice {
				if lo == nil {
					lo = intLit(0)
				}
				if hi == nil {
					hi = cur.F[2].T
				}
				x.setReg(in, x.subSlice(st, cur, lo, hi, in.Type()))
				return
			}
		}
		if base.Path.Cell != nil && len(base.Path.Sel) == 0 && lo == nil && hi == nil {
			if cur, ok := st.cells[base.Path.Cell]; ok && cur.K == VScalar && cur.T.S == SStr {
				// b[:] of a byte array: the same bytes
				x.setReg(in, scalar(cur.T, in.Type()))
				return
			}
		}
		// slicing a pointer-to-array (varargs): opaque fresh slice
		v := x.havocVal(in.Type(), "varargs")
		if v.K == VSlice {
			x.assume(st, x.typeFacts(v, in.Type()))
		}
		x.setReg(in, v)
	default:
		x.unsupported("Slice on value kind %d", base.K)
	}
}

func (x *Exec) makeInterface(st *State, v *Val, from, to types.Type) *Val {
	if v.K == VPath && v.Path.Cell != nil {
		// the address of a local is boxed (e.g. rows.Scan(&x)): callees may write it from now on
		x.escaped[v.Path.Cell] = true
	}
	_, s := classify(to)
	if s == SErr {
		// concrete error value: opaque non-nil error determined by the payload
		if v.K == VScalar {
			e := x.ufApp("mkerr."+typeKey(from), SErr, v.T)
			x.assume(st, tNot(tEq(e, errNil)))
			return scalar(e, to)
		}
		e := x.D.fresh("err", SErr)
		x.assume(st, tNot(tEq(e, errNil)))
		return scalar(e, to)
	}
	// any: box scalars injectively per source type; other values opaque non-nil
	if v.K == VScalar {
		a := x.ufApp("box."+typeKey(from), SAny, v.T)
		if _, isPtr := from.Underlying().(*types.Pointer); !isPtr {
			x.assume(st, tNot(tEq(a, anyNil)))
		} else {
			x.assume(st, tNot(tEq(a, anyNil))) // a typed nil pointer in an interface is still a non-nil interface
		}
		return scalar(a, to)
	}
	a := x.D.fresh("iface", SAny)
	x.assume(st, tNot(tEq(a, anyNil)))
	return scalar(a, to)
}

func (x *Exec) execTypeAssert(st *State, in *ssa.TypeAssert) {
	v := x.val(st, in.X)
	if _, isIface := in.AssertedType.Underlying().(*types.Interface); isIface && in.CommaOk && v.K == VScalar && v.T.S == SAny && !isErrorType(in.AssertedType) {
		// interface-to-interface assertion: same value; whether the dynamic type has the methods is a
		// deterministic (uninterpreted) function of the value, nameable in contracts as implements(e, "pkg.Iface")
		ok := x.ufApp("implements."+typeKey(in.AssertedType), SBool, v.T)
		x.assume(st, tImp(tEq(v.T, anyNil), tNot(ok)))
		x.setReg(in, &Val{K: VTuple, Typ: in.Type(), F: []*Val{retype(v, in.AssertedType), scalar(ok, nil)}})
		return
	}
	res := x.havocVal(in.AssertedType, "assert")
	x.assume(st, x.typeFacts(res, in.AssertedType))
	if in.CommaOk {
		ok := x.D.fresh("assert.ok", SBool)
		// a nil interface never satisfies an assertion
		if v.K == VScalar && v.T.S == SAny {
			x.assume(st, tImp(tEq(v.T, anyNil), tNot(ok)))
			// unboxing: if ok and target scalar, box(res) == v
			if res.K == VScalar {
				if _, isIface := in.AssertedType.Underlying().(*types.Interface); !isIface {
					x.assume(st, tImp(ok, tEq(x.ufApp("box."+typeKey(in.AssertedType), SAny, res.T), v.T)))
				}
			}
		}
		if v.K == VScalar && v.T.S == SErr {
			x.assume(st, tImp(tEq(v.T, errNil), tNot(ok)))
		}
		x.setReg(in, &Val{K: VTuple, Typ: in.Type(), F: []*Val{res, scalar(ok, nil)}})
		return
	}
	if x.noPanic() {
		x.noteDropped("unchecked type assertion (may panic)")
	}
	if v.K == VScalar && v.T.S == SAny && res.K == VScalar {
		if _, isIface := in.AssertedType.Underlying().(*types.Interface); !isIface {
			x.assume(st, tEq(x.ufApp("box."+typeKey(in.AssertedType), SAny, res.T), v.T))
		}
	}
	x.setReg(in, res)
}

// ---------- range over maps ----------

func (x *Exec) execRange(st *State, in *ssa.Range) {
	base := x.val(st, in.X)
	if mt, ok := in.X.Type().Underlying().(*types.Map); ok {
		ks, err := sortOfKey(mt.Key())
		if err != nil {
			x.unsupported("%v", err)
		}
		st.iters[in] = &iterData{mapRef: base.T, visited: constArr(arr(ks, SBool), tFalse), dom0: x.mapDom(st, mt, base.T), mt: mt}
		x.setReg(in, &Val{K: VIter, Iter: &IterState{Instr: in}})
		return
	}
	// range over string: rune iteration not modelled
	st.iters[in] = &iterData{isStr: true}
	x.setReg(in, &Val{K: VIter, Iter: &IterState{Instr: in}})
}

func (x *Exec) execNext(st *State, in *ssa.Next) {
	it := x.val(st, in.Iter)
	d := st.iters[it.Iter.Instr]
	if d == nil {
		x.unsupported("next on unknown iterator")
	}
	tup := in.Type().(*types.Tuple)
	if d.isStr {
		x.noteDropped("range over string (rune iteration havoced)")
		ok := x.D.fresh("next.ok", SBool)
		x.setReg(in, &Val{K: VTuple, Typ: in.Type(), F: []*Val{scalar(ok, nil), x.havocVal(tup.At(1).Type(), "idx"), x.havocVal(tup.At(2).Type(), "rune")}})
		return
	}
	mt := d.mt
	ks, _ := sortOfKey(mt.Key())
	ok := x.D.fresh("next.ok", SBool)
	k := x.D.fresh("next.k", ks)
	dom := x.mapDom(st, mt, d.mapRef)
	// ok => k in dom now, not yet visited
	x.assume(st, tImp(ok, tAnd(tSelect(dom, k), tNot(tSelect(d.visited, k)))))
	// !ok => every key present at start and still present has been visited
	bk := &Term{Op: "k!it", S: ks}
	x.assume(st, tImp(tNot(ok), tForall([]*Term{bk}, tImp(tAnd(tSelect(dom, bk), tSelect(d.dom0, bk)), tSelect(d.visited, bk)), []*Term{tSelect(dom, bk)})))
	v := x.mapGet(st, mt, d.mapRef, k)
	x.assumeMapWF(st, mt, d.mapRef, k)
	nd := *d
	nd.visited = tStore(d.visited, k, tTrue)
	// visited only advances when ok
	nd.visited = tIte(ok, nd.visited, d.visited)
	st.iters[it.Iter.Instr] = &nd
	st.ghost["$lastkey"] = scalar(k, mt.Key())
	kv := scalar(k, mt.Key())
	var vv *Val = v
	if _, isInvalid := tup.At(1).Type().(*types.Basic); isInvalid && tup.At(1).Type().(*types.Basic).Kind() == types.Invalid {
		kv = unitVal
	}
	if b, isB := tup.At(2).Type().(*types.Basic); isB && b.Kind() == types.Invalid {
		vv = unitVal
	}
	x.setReg(in, &Val{K: VTuple, Typ: in.Type(), F: []*Val{scalar(ok, nil), kv, vv}})
}

func (x *Exec) checkGuarded(st *State, structT types.Type, field int, in ssa.Instruction) {
	if fa, ok := in.(*ssa.FieldAddr); ok {
		if al, ok := fa.X.(*ssa.Alloc); ok && al.Heap {
			return // object allocated by this function and not yet published: no lock needed
		}
	}
	n, ok := types.Unalias(structT).(*types.Named)
	if !ok || n.Obj().Pkg() == nil {
		return
	}
	mon := x.C.Monitors[n.Obj().Pkg().Name()+"."+n.Obj().Name()]
	if mon == nil {
		return
	}
	fname := structT.Underlying().(*types.Struct).Field(field).Name()
	guarded := false
	for _, g := range mon.Guards {
		if g == fname {
			guarded = true
		}
	}
	if !guarded {
		return
	}
	// reads need R or W; writes need W. FieldAddr does not tell; decide by users.
	write := false
	if v, ok := in.(ssa.Value); ok {
		if refs := v.Referrers(); refs != nil {
			for _, r := range *refs {
				switch r := r.(type) {
				case *ssa.Store:
					if r.Addr == v {
						write = true
					}
				case *ssa.UnOp, *ssa.DebugRef:
				default:
					write = true // address escapes (passed to a call, sliced, ...)
				}
			}
		}
	}
	held := st.ghost["$heldR"].T
	if write {
		held = st.ghost["$heldW"].T
	}
	x.oblige(st, "guarded", fname, held, in.Pos(), fmt.Sprintf("field %s accessed with %s held", fname, mon.Lock), nil)
}


// subSlice models s[lo:hi]. From index 0 the result shares the backing array (aliasing preserved);
// from a non-zero index it is a copy into a fresh array (writes through it are then not seen through s:
// listed under the extraction's assumptions).
func (x *Exec) subSlice(st *State, base *Val, lo, hi *Term, t types.Type) *Val {
	if n, ok := isIntLit(lo); ok && n == 0 {
		return &Val{K: VSlice, Typ: t, F: []*Val{base.F[0], scalar(intLit(0), nil), scalar(hi, nil)}}
	}
	et := t.Underlying().(*types.Slice).Elem()
	r := x.newRef(st, "subslice")
	x.assumptions["re-slicing from a non-zero index is modelled as a copy (no aliasing with the original)"] = true
	for _, lf := range leavesOf(et) {
		key := sliceKey(et, lf.Path)
		h := x.heapGet(st, key, arr(SInt, arr(SInt, lf.S)))
		nw := x.D.fresh("sub.elems", arr(SInt, lf.S))
		i := &Term{Op: "i!ss", S: SInt}
		x.assume(st, tForall([]*Term{i}, tEq(tSelect(nw, i), tSelect(tSelect(h, base.F[0].T), tArith("+", i, lo))), []*Term{tSelect(nw, i)}))
		x.heapSet(st, key, tStore(h, r, nw))
	}
	return &Val{K: VSlice, Typ: t, F: []*Val{scalar(r, nil), scalar(intLit(0), nil), scalar(tArith("-", hi, lo), nil)}}
}

// obligeEncodable: under `check encodable`, a value boxed into an interface must be something encoding/json can
// write: no channel, function or complex value anywhere in its static type, and a float must be a number (our float
// model flags NaN, and the result of dividing by zero, as not-a-number).
func (x *Exec) obligeEncodable(st *State, v *Val, t types.Type, pos token.Pos) {
	if !jsonEncodableType(t, map[types.Type]bool{}) {
		x.oblige(st, "encodable", "type", tFalse, pos, "boxed value of type "+t.String()+" is JSON-encodable", nil)
		return
	}
	if v.K != VFloat {
		x.oblige(st, "encodable", "type", tTrue, pos, "boxed value of type "+t.String()+" is JSON-encodable", nil)
	}
	if v.K == VFloat {
		x.oblige(st, "encodable", "float-is-a-number", tNot(v.F[0].T), pos, "boxed float is neither NaN nor the result of a division by zero", nil)
	}
}

func jsonEncodableType(t types.Type, seen map[types.Type]bool) bool {
	t = types.Unalias(t)
	if seen[t] {
		return true
	}
	seen[t] = true
	switch u := t.Underlying().(type) {
	case *types.Basic:
		return u.Info()&types.IsComplex == 0 && u.Kind() != types.UnsafePointer
	case *types.Chan, *types.Signature:
		return false
	case *types.Pointer:
		return jsonEncodableType(u.Elem(), seen)
	case *types.Slice:
		return jsonEncodableType(u.Elem(), seen)
	case *types.Array:
		return jsonEncodableType(u.Elem(), seen)
	case *types.Map:
		return jsonEncodableType(u.Elem(), seen)
	case *types.Struct:
		for i := 0; i < u.NumFields(); i++ {
			if u.Field(i).Exported() && !jsonEncodableType(u.Field(i).Type(), seen) {
				return false
			}
		}
		return true
	}
	return true // interfaces: decided where the dynamic value was boxed
}
