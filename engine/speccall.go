package main

import (
	"golang.org/x/tools/go/ssa"
	"fmt"
	"go/types"
	"strings"
)

// ---- string / misc uninterpreted function layer shared by code semantics and contracts ----

func (x *Exec) strFn(st *State, name string, args ...*Term) *Term {
	switch name {
	case "trim", "lower", "upper", "canon", "cleanpath", "trimslashes":
		x.axiomsOn["str1:"+name] = true
		return x.ufApp("str."+name, SStr, args[0])
	case "prefixof": // prefixof(p, s)
		if x.strTheory {
			return mk("str.prefixof", SBool, args[0], args[1])
		}
		x.axiomsOn["prefixof"] = true
		return x.ufApp("str.prefixof", SBool, args[0], args[1])
	case "suffixof":
		if x.strTheory {
			return mk("str.suffixof", SBool, args[0], args[1])
		}
		x.axiomsOn["suffixof"] = true
		return x.ufApp("str.suffixof", SBool, args[0], args[1])
	case "contains": // contains(s, sub)
		if x.strTheory {
			return mk("str.contains", SBool, args[0], args[1])
		}
		x.axiomsOn["contains"] = true
		return x.ufApp("str.contains", SBool, args[0], args[1])
	case "trimprefix": // trimprefix(s, p)
		if x.strTheory {
			s, p := args[0], args[1]
			return tIte(mk("str.prefixof", SBool, p, s), mk("str.substr", SStr, s, x.strLen(p), tArith("-", x.strLen(s), x.strLen(p))), s)
		}
		x.axiomsOn["trimprefix"] = true
		x.axiomsOn["prefixof"] = true
		x.D.declareFun("uf.str.prefixof", []Sort{SStr, SStr}, SBool)
		return x.ufApp("str.trimprefix", SStr, args[0], args[1])
	case "trimsuffix":
		if x.strTheory {
			s, p := args[0], args[1]
			return tIte(mk("str.suffixof", SBool, p, s), mk("str.substr", SStr, s, intLit(0), tArith("-", x.strLen(s), x.strLen(p))), s)
		}
		x.axiomsOn["trimsuffix"] = true
		x.axiomsOn["suffixof"] = true
		x.D.declareFun("uf.str.suffixof", []Sort{SStr, SStr}, SBool)
		return x.ufApp("str.trimsuffix", SStr, args[0], args[1])
	case "indexof": // indexof(s, sub)
		if x.strTheory {
			return mk("str.indexof", SInt, args[0], args[1], intLit(0))
		}
		return x.ufApp("str.indexof", SInt, args[0], args[1])
	}
	panic("strFn: " + name)
}

func (x *Exec) specCall(c *SpecCtx, e *Expr) (*Val, error) {
	name := e.Name
	evalArgs := func() ([]*Val, error) {
		var out []*Val
		for _, a := range e.Args {
			v, err := x.specEval(c, a)
			if err != nil {
				return nil, err
			}
			out = append(out, v)
		}
		return out, nil
	}
	need := func(n int) error {
		if len(e.Args) != n {
			return fmt.Errorf("%s expects %d arguments in %q", name, n, e.String())
		}
		return nil
	}
	switch name {
	case "old":
		if err := need(1); err != nil {
			return nil, err
		}
		c2 := c.inState(c.old)
		c2.inOld = true
		return x.specEval(c2, e.Args[0])
	case "string":
		// string(e): Go conversion of a string-kinded value (e.g. a queue.State) to string; same value, type string
		if len(e.Args) != 1 {
			return nil, fmt.Errorf("string(e)")
		}
		v, err := x.specEval(c, e.Args[0])
		if err != nil {
			return nil, err
		}
		if v.K != VScalar || v.T.S != SStr {
			return nil, fmt.Errorf("string(e): e is not string-kinded in %q", e.String())
		}
		return retype(v, types.Typ[types.String]), nil
	case "local":
		// local(name): value of a body local in the state being described (exit state in ensures/sets)
		if len(e.Args) != 1 || e.Args[0].Kind != "ident" {
			return nil, fmt.Errorf("local(name)")
		}
		c2 := *c
		c2.inBody = true
		c2.locals = true
		if a, ok := x.localCell(&c2, e.Args[0].Name); ok {
			v := c.cells().cells[a]
			if v.Typ == nil {
				v = retype(v, a.Type().(*types.Pointer).Elem())
			}
			return v, nil
		}
		// a captured variable of a closure: its content in the state being described
		for _, fv := range x.freeVarRefs {
			if fv.name == e.Args[0].Name {
				return x.loadObj(c.st, fv.ref, fv.typ, "", fv.typ), nil
			}
		}
		// a local whose address escapes lives on the heap: the name denotes (a pointer to) it
		for _, b := range x.fn.Blocks {
			for _, in := range b.Instrs {
				if a, ok := in.(*ssa.Alloc); ok && a.Heap && a.Comment == e.Args[0].Name {
					if v, ok := x.regs[a]; ok && v.K == VScalar {
						return retype(v, a.Type()), nil
					}
				}
			}
		}
		return nil, fmt.Errorf("no local named %s is live here", e.Args[0].Name)
	case "at":
		// at(L, e): e evaluated in the labelled mid-state L
		if err := need(2); err != nil {
			return nil, err
		}
		if e.Args[0].Kind != "ident" {
			return nil, fmt.Errorf("at(LABEL, expr)")
		}
		ls, ok := x.labels[e.Args[0].Name]
		if !ok {
			return nil, fmt.Errorf("label %s is not (yet) defined at this point", e.Args[0].Name)
		}
		c2 := c.inState(ls)
		c2.inOld = true
		return x.specEval(c2, e.Args[1])
	case "sameSince":
		// sameSince(L, p): every field of *p equals its value in the labelled state
		if err := need(2); err != nil {
			return nil, err
		}
		ls, ok := x.labels[e.Args[0].Name]
		if !ok {
			return nil, fmt.Errorf("label %s is not (yet) defined at this point", e.Args[0].Name)
		}
		pv, err := x.specEval(c, e.Args[1])
		if err != nil {
			return nil, err
		}
		pt, ok := pv.Typ.Underlying().(*types.Pointer)
		if !ok {
			return nil, fmt.Errorf("sameSince: not a pointer")
		}
		var cs []*Term
		for _, lf := range leavesOf(pt.Elem()) {
			key := objKey(pt.Elem(), lf.Path)
			cs = append(cs, tEq(tSelect(x.heapGet(c.st, key, arr(SInt, lf.S)), pv.T), tSelect(x.heapGet(ls, key, arr(SInt, lf.S)), pv.T)))
		}
		return boolVal(tAnd(cs...)), nil
	case "pre":
		if err := need(1); err != nil {
			return nil, err
		}
		if c.pre == nil {
			return nil, fmt.Errorf("pre() outside a loop clause")
		}
		c2 := c.inState(c.pre)
		c2.cellSt = c.pre // locals inside pre() denote their value at loop entry
		return x.specEval(c2, e.Args[0])
	case "ite":
		if err := need(3); err != nil {
			return nil, err
		}
		as, err := evalArgs()
		if err != nil {
			return nil, err
		}
		a, b := x.unifyNil(as[1], as[2])
		if a.K == VScalar && b.K == VScalar {
			p, q := x.numUnify(a.T, b.T)
			r := scalar(tIte(as[0].T, p, q), a.Typ)
			r.SetOf = a.SetOf
			return r, nil
		}
		return x.iteVal(as[0].T, a, b), nil
	case "len":
		if err := need(1); err != nil {
			return nil, err
		}
		v, err := x.specEval(c, e.Args[0])
		if err != nil {
			return nil, err
		}
		switch {
		case v.K == VSlice:
			return intVal(v.F[2].T), nil
		case v.K == VScalar && v.T.S == SStr:
			return intVal(x.strLen(v.T)), nil
		case v.K == VScalar && v.Typ != nil:
			if mt, ok := v.Typ.Underlying().(*types.Map); ok {
				return intVal(x.mapLen(c.st, mt, v.T)), nil
			}
		}
		return nil, fmt.Errorf("len of unsupported value in %q", e.String())
	case "dom":
		v, err := x.specEval(c, e.Args[0])
		if err != nil {
			return nil, err
		}
		if mt, ok := v.Typ.Underlying().(*types.Map); ok {
			ks, _ := sortOfKey(mt.Key())
			return &Val{K: VScalar, T: x.mapDom(c.st, mt, v.T), SetOf: ks}, nil
		}
		return nil, fmt.Errorf("dom of non-map")
	case "add", "remove":
		as, err := evalArgs()
		if err != nil {
			return nil, err
		}
		if len(as) != 2 {
			return nil, fmt.Errorf("%s(set, elem)", name)
		}
		b := tTrue
		if name == "remove" {
			b = tFalse
		}
		return &Val{K: VScalar, T: tStore(as[0].T, as[1].T, b), SetOf: as[0].SetOf}, nil
	case "store":
		as, err := evalArgs()
		if err != nil {
			return nil, err
		}
		if len(as) != 3 {
			return nil, fmt.Errorf("store(map, key, value)")
		}
		_, vs, _ := arrParts(as[0].T.S)
		v := as[2].T
		if vs == SReal && v.S == SInt {
			v = mk("to_real", SReal, v)
		}
		return &Val{K: VScalar, T: tStore(as[0].T, as[1].T, v), SetOf: as[0].SetOf}, nil
	case "empty":
		// empty(T): empty set of T
		if len(e.Args) != 1 || e.Args[0].Kind != "ident" {
			return nil, fmt.Errorf("empty(TypeName)")
		}
		ty, err := x.resolveType(e.Args[0].Name, c.pkg)
		if err != nil {
			return nil, err
		}
		return &Val{K: VScalar, T: constArr(arr(ty.sort(), SBool), tFalse), SetOf: ty.sort()}, nil
	case "card":
		as, err := evalArgs()
		if err != nil {
			return nil, err
		}
		ks, _, ok := arrParts(as[0].T.S)
		if !ok {
			return nil, fmt.Errorf("card of non-set")
		}
		x.axiomsOn["card:"+string(ks)] = true
		x.D.declareFun("card."+sanitize(string(ks)), []Sort{as[0].T.S}, SInt)
		return intVal(mk("card."+sanitize(string(ks)), SInt, as[0].T)), nil
	case "fresh":
		as, err := evalArgs()
		if err != nil {
			return nil, err
		}
		al := x.heapGet(c.old, allocKey, arr(SInt, SBool))
		x.usesAlloc = true
		return boolVal(tAnd(tNot(tSelect(al, as[0].T)), tCmp(">", as[0].T, intLit(0)))), nil
	case "allocated":
		as, err := evalArgs()
		if err != nil {
			return nil, err
		}
		al := x.heapGet(c.st, allocKey, arr(SInt, SBool))
		x.usesAlloc = true
		return boolVal(tSelect(al, as[0].T)), nil
	case "errIs":
		as, err := evalArgs()
		if err != nil {
			return nil, err
		}
		return boolVal(x.errIs(c.st, as[0].T, as[1].T)), nil
	case "trim", "lower", "upper", "canon", "cleanpath":
		as, err := evalArgs()
		if err != nil {
			return nil, err
		}
		return scalar(x.strFn(c.st, name, as[0].T), types.Typ[types.String]), nil
	case "prefixof", "suffixof", "contains":
		as, err := evalArgs()
		if err != nil {
			return nil, err
		}
		return boolVal(x.strFn(c.st, name, as[0].T, as[1].T)), nil
	case "trimprefix", "trimsuffix":
		as, err := evalArgs()
		if err != nil {
			return nil, err
		}
		return scalar(x.strFn(c.st, name, as[0].T, as[1].T), types.Typ[types.String]), nil
	case "concat":
		as, err := evalArgs()
		if err != nil {
			return nil, err
		}
		t := as[0].T
		for _, a := range as[1:] {
			t = x.strConcat(c.st, t, a.T)
		}
		return scalar(t, types.Typ[types.String]), nil
	case "substr": // substr(s, lo, hi)
		as, err := evalArgs()
		if err != nil {
			return nil, err
		}
		if x.strTheory {
			return scalar(mk("str.substr", SStr, as[0].T, as[1].T, tArith("-", as[2].T, as[1].T)), types.Typ[types.String]), nil
		}
		return scalar(x.ufApp("substr", SStr, as[0].T, as[1].T, as[2].T), types.Typ[types.String]), nil
	case "min", "max":
		as, err := evalArgs()
		if err != nil {
			return nil, err
		}
		a, b := floatToReal(as[0]), floatToReal(as[1])
		p, q := x.numUnify(a.T, b.T)
		if name == "min" {
			return scalar(tIte(tCmp("<=", p, q), p, q), a.Typ), nil
		}
		return scalar(tIte(tCmp(">=", p, q), p, q), a.Typ), nil
	case "abs":
		as, err := evalArgs()
		if err != nil {
			return nil, err
		}
		a := floatToReal(as[0])
		z := zeroTerm(a.T.S)
		return scalar(tIte(tCmp(">=", a.T, z), a.T, mk("-", a.T.S, a.T)), a.Typ), nil
	case "nan":
		as, err := evalArgs()
		if err != nil {
			return nil, err
		}
		if as[0].K != VFloat {
			return nil, fmt.Errorf("nan() of non-float")
		}
		return boolVal(as[0].F[0].T), nil
	case "real":
		as, err := evalArgs()
		if err != nil {
			return nil, err
		}
		x.usesReal = true
		if as[0].K == VFloat {
			return scalar(as[0].F[1].T, nil), nil
		}
		if as[0].T.S == SInt {
			return scalar(mk("to_real", SReal, as[0].T), nil), nil
		}
		return as[0], nil
	case "implements":
		// implements(e, "pkg.Iface"): the comma-ok result of the interface assertion e.(pkg.Iface)
		if len(e.Args) != 2 || e.Args[1].Kind != "str" {
			return nil, fmt.Errorf("implements(e, \"pkg.Iface\")")
		}
		v, err := x.specEval(c, e.Args[0])
		if err != nil {
			return nil, err
		}
		if v.K != VScalar || v.T.S != SAny {
			return nil, fmt.Errorf("implements: interface value expected")
		}
		return scalar(x.ufApp("implements."+sanitize(e.Args[1].Name), SBool, v.T), types.Typ[types.Bool]), nil
	case "ext2":
		// ext2("pkg.Func", "$i", args...): result i of a multi-result deterministic external function
		if len(e.Args) < 2 || e.Args[0].Kind != "str" || e.Args[1].Kind != "str" {
			return nil, fmt.Errorf("ext2(\"key\", \"$i\", args...)")
		}
		key, leaf := e.Args[0].Name, e.Args[1].Name
		fo := x.findExtFunc(key)
		if fo == nil {
			return nil, fmt.Errorf("ext2: cannot resolve %s", key)
		}
		var idx int
		if _, err := fmt.Sscanf(leaf, "$%d", &idx); err != nil {
			return nil, fmt.Errorf("ext2: leaf must be $i")
		}
		res := fo.Type().(*types.Signature).Results()
		if idx >= res.Len() {
			return nil, fmt.Errorf("ext2: %s has %d results", key, res.Len())
		}
		var ts []*Term
		for _, a := range e.Args[2:] {
			v, err := x.specEval(c, a)
			if err != nil {
				return nil, err
			}
			if v.K != VScalar {
				return nil, fmt.Errorf("ext2: scalar arguments only")
			}
			ts = append(ts, v.T)
		}
		return buildVal(res.At(idx).Type(), leaf, func(path string, s Sort, _ types.Type) *Term {
			return x.ufApp("ext."+key+"#"+path, s, ts...)
		}), nil
	case "ext":
		// ext("pkg.Func", args...): the uninterpreted function standing for a deterministic external function
		// (first result leaf; use ext2("key", "leaf", args...) for other leaves)
		if len(e.Args) < 1 || e.Args[0].Kind != "str" {
			return nil, fmt.Errorf("ext(\"key\", args...)")
		}
		key := e.Args[0].Name
		var ts []*Term
		for _, a := range e.Args[1:] {
			v, err := x.specEval(c, a)
			if err != nil {
				return nil, err
			}
			var rec func(v *Val) error
			rec = func(v *Val) error {
				switch v.K {
				case VScalar:
					ts = append(ts, v.T)
				case VStruct, VTuple, VSlice, VFloat:
					for _, f := range v.F {
						if err := rec(f); err != nil {
							return err
						}
					}
				case VUnit:
				default:
					return fmt.Errorf("ext: non-SMT argument")
				}
				return nil
			}
			if err := rec(v); err != nil {
				return nil, err
			}
		}
		if rs, ok := extResultSorts[key]; ok {
			name := "ext." + key
			if rs.leaf != "" {
				name += "#" + rs.leaf
			}
			return scalar(x.ufApp(name, rs.s, ts...), rs.typ), nil
		}
		fo := x.findExtFunc(key)
		if fo == nil {
			return nil, fmt.Errorf("ext: cannot resolve %s among the imports of the loaded packages", key)
		}
		res := fo.Type().(*types.Signature).Results()
		if res.Len() == 0 {
			return nil, fmt.Errorf("ext: %s has no result", key)
		}
		prefix := ""
		rt := res.At(0).Type()
		if res.Len() > 1 {
			prefix = "$0"
		}
		v := buildVal(rt, prefix, func(path string, s Sort, _ types.Type) *Term {
			name := "ext." + key
			if path != "" {
				name += "#" + path
			}
			return x.ufApp(name, s, ts...)
		})
		return v, nil
	case "errAs":
		// errAs(err, "typekey"): the predicate errors.As is modelled by for that target type
		if len(e.Args) != 2 || e.Args[1].Kind != "str" {
			return nil, fmt.Errorf("errAs(err, \"type key\")")
		}
		ev, err := x.specEval(c, e.Args[0])
		if err != nil {
			return nil, err
		}
		return boolVal(x.ufApp("errAs."+sanitize(e.Args[1].Name), SBool, ev.T)), nil
	case "headerGet":
		// headerGet(h, name): first value stored under the canonical name, "" if none (net/http.Header.Get)
		as, err := evalArgs()
		if err != nil {
			return nil, err
		}
		mt, ok := as[0].Typ.Underlying().(*types.Map)
		if !ok {
			return nil, fmt.Errorf("headerGet: first argument is not a header map")
		}
		k := x.strFn(c.st, "canon", as[1].T)
		v := x.mapGet(c.st, mt, as[0].T, k)
		first := x.loadElem(c.st, v.F[0].T, intLit(0), types.Typ[types.String], "", types.Typ[types.String])
		has := tAnd(x.mapHas(c.st, mt, as[0].T, k), tCmp(">", v.F[2].T, intLit(0)))
		return scalar(tIte(has, first.T, strEmpty), types.Typ[types.String]), nil
	case "epoch":
		return intVal(x.timeEpoch()), nil
	case "unixSeconds":
		as, err := evalArgs()
		if err != nil {
			return nil, err
		}
		return intVal(mk("div", SInt, tArith("-", as[0].T, x.timeEpoch()), intLit(1000000000))), nil
	case "unixNanoOf":
		as, err := evalArgs()
		if err != nil {
			return nil, err
		}
		return scalar(x.unixNanoTerm(as[0].T), types.Typ[types.Int64]), nil
	case "hexOf":
		as, err := evalArgs()
		if err != nil {
			return nil, err
		}
		return scalar(x.ufApp("hex", SStr, as[0].T), types.Typ[types.String]), nil
	case "hexdecOf":
		as, err := evalArgs()
		if err != nil {
			return nil, err
		}
		x.axiomsOn["hexdec"] = true
		x.D.declareFun("uf.hex", []Sort{SStr}, SStr)
		x.D.declareFun("uf.hexvalid", []Sort{SStr}, SBool)
		return scalar(x.ufApp("hexdec", SStr, as[0].T), nil), nil
	case "b64decOf", "b64validOf", "b64Of":
		as, err := evalArgs()
		if err != nil {
			return nil, err
		}
		x.axiomsOn["b64"] = true
		x.D.declareFun("uf.b64", []Sort{SStr}, SStr)
		x.D.declareFun("uf.b64dec", []Sort{SStr}, SStr)
		x.D.declareFun("uf.b64valid", []Sort{SStr}, SBool)
		switch e.Name {
		case "b64validOf":
			return scalar(x.ufApp("b64valid", SBool, as[0].T), types.Typ[types.Bool]), nil
		case "b64Of":
			return scalar(x.ufApp("b64", SStr, as[0].T), types.Typ[types.String]), nil
		}
		return scalar(x.ufApp("b64dec", SStr, as[0].T), nil), nil
	case "sha256Of":
		as, err := evalArgs()
		if err != nil {
			return nil, err
		}
		return scalar(x.ufApp("sha256", SStr, as[0].T), types.Typ[types.String]), nil
	case "itoa":
		as, err := evalArgs()
		if err != nil {
			return nil, err
		}
		return scalar(x.ufApp("itoa", SStr, as[0].T, intLit(10)), types.Typ[types.String]), nil
	case "funcref":
		// funcref("ssa function string"): the constant a func value of that function is modelled by
		if len(e.Args) != 1 || e.Args[0].Kind != "str" {
			return nil, fmt.Errorf("funcref(\"name\")")
		}
		if f, ok := x.P.funcs[e.Args[0].Name]; ok {
			return scalar(x.funcConst(f), nil), nil
		}
		return scalar(x.D.declareConst("fn."+sanitize(e.Args[0].Name), SAny), nil), nil
	case "pow":
		as, err := evalArgs()
		if err != nil {
			return nil, err
		}
		x.usesReal = true
		x.axiomsOn["pow"] = true
		x.D.declareFun("uf.pow", []Sort{SReal, SReal}, SReal)
		a, b := floatToReal(as[0]).T, floatToReal(as[1]).T
		if a.S == SInt {
			a = mk("to_real", SReal, a)
		}
		if b.S == SInt {
			b = mk("to_real", SReal, b)
		}
		return scalar(mk("uf.pow", SReal, a, b), nil), nil
	case "floor":
		as, err := evalArgs()
		if err != nil {
			return nil, err
		}
		return intVal(mk("to_int", SInt, floatToReal(as[0]).T)), nil
	case "heldW":
		return c.st.ghost["$heldW"], nil
	case "heldR":
		return c.st.ghost["$heldR"], nil
	case "unchanged":
		// unchanged(e1, e2, ...): each e equals old(e)
		var cs []*Term
		for _, a := range e.Args {
			cur, err := x.specEval(c, a)
			if err != nil {
				return nil, err
			}
			c2 := c.inState(c.old)
			c2.inOld = true
			old, err := x.specEval(c2, a)
			if err != nil {
				return nil, err
			}
			cs = append(cs, valEqRaw(cur, old))
		}
		return boolVal(tAnd(cs...)), nil
	case "same", "sameExcept", "presame", "presameExcept":
		// same(p): every field of *p equals its value in the old state; sameExcept(p, f1, f2, ...): all but the named fields
		if len(e.Args) < 1 {
			return nil, fmt.Errorf("%s(ptr, fields...)", name)
		}
		pv, err := x.specEval(c, e.Args[0])
		if err != nil {
			return nil, err
		}
		if pv.K != VScalar || pv.Typ == nil {
			return nil, fmt.Errorf("%s: argument is not a pointer", name)
		}
		pt, ok := pv.Typ.Underlying().(*types.Pointer)
		if !ok {
			return nil, fmt.Errorf("%s: argument is not a pointer", name)
		}
		stt, ok := pt.Elem().Underlying().(*types.Struct)
		if !ok {
			return nil, fmt.Errorf("%s: not a pointer to struct", name)
		}
		skip := map[string]bool{}
		for _, a := range e.Args[1:] {
			if a.Kind != "ident" {
				return nil, fmt.Errorf("%s: field names expected", name)
			}
			found := false
			for i := 0; i < stt.NumFields(); i++ {
				if stt.Field(i).Name() == a.Name {
					found = true
				}
			}
			if !found {
				return nil, fmt.Errorf("%s: no field %s in %s", name, a.Name, pt.Elem())
			}
			skip[a.Name] = true
		}
		var cs []*Term
		for i := 0; i < stt.NumFields(); i++ {
			f := stt.Field(i)
			if skip[f.Name()] {
				continue
			}
			ref := c.old
			if strings.HasPrefix(name, "pre") {
				if c.pre == nil {
					return nil, fmt.Errorf("%s outside a loop clause", name)
				}
				ref = c.pre
			}
			cur := x.loadObj(c.st, pv.T, pt.Elem(), f.Name(), f.Type())
			old := x.loadObj(ref, pv.T, pt.Elem(), f.Name(), f.Type())
			cs = append(cs, valEqRaw(cur, old))
		}
		return boolVal(tAnd(cs...)), nil
	case "sameMap":
		// sameMap(m1, m2): same domain and values (extensional), possibly across states via old()
		as, err := evalArgs()
		if err != nil {
			return nil, err
		}
		return nil, fmt.Errorf("sameMap not available: %v", as)
	}
	if sf, ok := x.C.Specs[name]; ok {
		if c.depth > 12 {
			return nil, fmt.Errorf("spec function expansion too deep at %s", name)
		}
		if len(sf.Params) != len(e.Args) {
			return nil, fmt.Errorf("%s expects %d arguments", name, len(sf.Params))
		}
		as, err := evalArgs()
		if err != nil {
			return nil, err
		}
		vars := map[string]*Val{}
		for i, p := range sf.Params {
			ty, err := x.resolveType(p.Type, sf.Pkg)
			if err != nil {
				return nil, fmt.Errorf("%s: %v", sf.Where, err)
			}
			v := as[i]
			if v.K == VScalar && v.T.S == "Nil" {
				v = scalar(zeroTerm(ty.sort()), ty.Go)
			}
			if ty.Go != nil {
				v = retype(v, ty.Go)
			}
			v = x.coerceSpec(v, ty)
			vars[p.Name] = v
		}
		c2 := &SpecCtx{st: c.st, old: c.old, pre: c.pre, vars: vars, pkg: sf.Pkg, locals: false, depth: c.depth + 1}
		v, err := x.specEval(c2, sf.Body)
		if err != nil {
			return nil, fmt.Errorf("in %s (%s): %v", name, sf.Where, err)
		}
		return v, nil
	}
	if uf, ok := x.C.UFuncs[name]; ok {
		as, err := evalArgs()
		if err != nil {
			return nil, err
		}
		var ts []*Term
		for i, a := range as {
			if a.K == VFloat {
				a = floatToReal(a)
			}
			if a.K != VScalar {
				return nil, fmt.Errorf("ufunc %s: argument %d is not scalar", name, i)
			}
			t := a.T
			if i < len(uf.Params) {
				pt, err := x.resolveType(uf.Params[i].Type, uf.Pkg)
				if err == nil && pt.sort() == SReal && t.S == SInt {
					t = mk("to_real", SReal, t)
				}
				if t.S == "Nil" && err == nil {
					t = zeroTerm(pt.sort())
				}
			}
			ts = append(ts, t)
		}
		rt, err := x.resolveType(uf.Result, uf.Pkg)
		if err != nil {
			return nil, err
		}
		r := scalar(x.ufApp("spec."+name, rt.sort(), ts...), rt.Go)
		if rt.Set != "" {
			r.SetOf = rt.Set
		}
		return r, nil
	}
	// time helpers in method-ish syntax are not supported; package-qualified constants handled elsewhere
	if strings.Contains(name, ".") {
		return nil, fmt.Errorf("unknown function %s", name)
	}
	return nil, fmt.Errorf("unknown spec function %q", name)
}

func (x *Exec) errIs(st *State, e, target *Term) *Term {
	x.axiomsOn["errIs"] = true
	x.D.declareFun("uf.errIs", []Sort{SErr, SErr}, SBool)
	return mk("uf.errIs", SBool, e, target)
}


type extSort struct {
	s    Sort
	leaf string
	typ  types.Type
}

// result sorts of external functions that contracts refer to through ext("key", ...)
var extResultSorts = map[string]extSort{
	"net.(IP).IsLoopback":           {SBool, "", types.Typ[types.Bool]},
	"net.(IP).IsPrivate":            {SBool, "", types.Typ[types.Bool]},
	"net.(IP).IsLinkLocalUnicast":   {SBool, "", types.Typ[types.Bool]},
	"net.(IP).IsLinkLocalMulticast": {SBool, "", types.Typ[types.Bool]},
	"net.(IP).IsMulticast":          {SBool, "", types.Typ[types.Bool]},
	"net.(IP).IsUnspecified":        {SBool, "", types.Typ[types.Bool]},
	"net.(IP).IsGlobalUnicast":      {SBool, "", types.Typ[types.Bool]},
	"net/netip.(Prefix).Contains":   {SBool, "", types.Typ[types.Bool]},
	"net/url.(*URL).Hostname":       {SStr, "", types.Typ[types.String]},
	"net/url.(*URL).EscapedPath":    {SStr, "", types.Typ[types.String]},
	"path.Base":                     {SStr, "", types.Typ[types.String]},
	"net/url.Parse":                 {SInt, "$0", nil},
	"strings.Trim":                  {SStr, "", types.Typ[types.String]},
	"strings.Join":                  {SStr, "", types.Typ[types.String]},
}


// findExtFunc resolves "pkgpath.Func", "pkgpath.(T).M" or "pkgpath.(*T).M" among all packages imported
// (transitively known through go/types) by the loaded packages.
func (x *Exec) findExtFunc(key string) *types.Func {
	var pkgPath, rest string
	if i := strings.Index(key, ".("); i >= 0 {
		pkgPath, rest = key[:i], key[i+1:]
	} else {
		i := strings.LastIndex(key, ".")
		if i < 0 {
			return nil
		}
		pkgPath, rest = key[:i], key[i+1:]
	}
	var pkg *types.Package
	seen := map[*types.Package]bool{}
	var visit func(p *types.Package)
	visit = func(p *types.Package) {
		if seen[p] || pkg != nil {
			return
		}
		seen[p] = true
		if p.Path() == pkgPath {
			pkg = p
			return
		}
		for _, q := range p.Imports() {
			visit(q)
		}
	}
	for _, lp := range x.P.Pkgs {
		visit(lp.Types)
	}
	if pkg == nil {
		return nil
	}
	if strings.HasPrefix(rest, "(") {
		j := strings.Index(rest, ").")
		if j < 0 {
			return nil
		}
		tn := strings.TrimPrefix(rest[1:j], "*")
		mn := rest[j+2:]
		o := pkg.Scope().Lookup(tn)
		if o == nil {
			return nil
		}
		ms := types.NewMethodSet(types.NewPointer(o.Type()))
		for i := 0; i < ms.Len(); i++ {
			if f, ok := ms.At(i).Obj().(*types.Func); ok && f.Name() == mn {
				return f
			}
		}
		return nil
	}
	if f, ok := pkg.Scope().Lookup(rest).(*types.Func); ok {
		return f
	}
	return nil
}
