package main

import (
	"go/token"
	"go/types"
)

func (x *Exec) binop(st *State, op token.Token, a, b *Val, xt types.Type, pos token.Pos) *Val {
	// comparisons on composite values
	if op == token.EQL || op == token.NEQ {
		var eq *Term
		switch {
		case a.K == VClosure || b.K == VClosure:
			// func value compared with nil
			if a.K == VClosure && a.Clo.Fn != nil && b.K == VScalar {
				eq = tFalse
			} else if b.K == VClosure && b.Clo.Fn != nil && a.K == VScalar {
				eq = tFalse
			} else {
				eq = x.D.fresh("fneq", SBool)
			}
		case a.K == VPath || b.K == VPath:
			if a.K == VPath && b.K == VPath {
				if samePath(a.Path, b.Path) {
					eq = tTrue
				} else {
					eq = x.D.fresh("ptreq", SBool)
				}
			} else {
				eq = tFalse // address of a live location is never nil
			}
		case a.K == VSlice || b.K == VSlice:
			// slice compared with nil: arr == 0
			if a.K == VSlice && b.K == VSlice {
				// only comparison with nil is legal in Go
				if t, ok := isIntLit(b.F[0].T); ok && t == 0 {
					eq = tEq(a.F[0].T, intLit(0))
				} else {
					eq = tEq(b.F[0].T, intLit(0))
				}
			}
		default:
			if a.K == VScalar && b.K == VScalar && a.T.S != b.T.S {
				x.unsupported("comparison of differently modelled values (%s vs %s)", a.T.S, b.T.S)
			}
			eq = valEq(a, b)
		}
		if op == token.NEQ {
			if a.K == VFloat {
				// x != y is !(x == y) in Go, including NaN
				return scalar(tNot(eq), types.Typ[types.Bool])
			}
			return scalar(tNot(eq), types.Typ[types.Bool])
		}
		return scalar(eq, types.Typ[types.Bool])
	}
	if a.K == VFloat {
		return x.floatBinop(st, op, a, b, pos)
	}
	if a.K != VScalar || b.K != VScalar {
		x.unsupported("binary op %s on composite values", op)
	}
	p, q := a.T, b.T
	switch p.S {
	case SBool:
		switch op {
		case token.AND, token.LAND:
			return scalar(tAnd(p, q), xt)
		case token.OR, token.LOR:
			return scalar(tOr(p, q), xt)
		case token.XOR:
			return scalar(mk("xor", SBool, p, q), xt)
		}
	case SStr:
		switch op {
		case token.ADD:
			return scalar(x.strConcat(st, p, q), xt)
		case token.LSS, token.LEQ, token.GTR, token.GEQ:
			var lt, le *Term
			if x.strTheory {
				lt, le = mk("str.<", SBool, p, q), mk("str.<=", SBool, p, q)
			} else {
				lt = x.ufApp("strlt", SBool, p, q)
				le = tOr(lt, tEq(p, q))
				x.axiomsOn["strlt"] = true
				x.assume(st, tOr(lt, tEq(p, q), x.ufApp("strlt", SBool, q, p)))
			}
			switch op {
			case token.LSS:
				return scalar(lt, types.Typ[types.Bool])
			case token.LEQ:
				return scalar(le, types.Typ[types.Bool])
			case token.GTR:
				return scalar(tNot(le), types.Typ[types.Bool])
			default:
				return scalar(tNot(lt), types.Typ[types.Bool])
			}
		}
	case SInt:
		switch op {
		case token.ADD:
			return x.arith(st, "+", p, q, xt, pos)
		case token.SUB:
			return x.arith(st, "-", p, q, xt, pos)
		case token.MUL:
			return x.arith(st, "*", p, q, xt, pos)
		case token.QUO:
			if x.noPanic() {
				x.oblige(st, "nopanic", "div0", tNot(tEq(q, intLit(0))), pos, "divisor non-zero", nil)
			}
			x.assume(st, tNot(tEq(q, intLit(0))))
			return scalar(mk("go_div", SInt, p, q), xt)
		case token.REM:
			if x.noPanic() {
				x.oblige(st, "nopanic", "div0", tNot(tEq(q, intLit(0))), pos, "divisor non-zero", nil)
			}
			x.assume(st, tNot(tEq(q, intLit(0))))
			return scalar(mk("go_mod", SInt, p, q), xt)
		case token.LSS:
			return scalar(tCmp("<", p, q), types.Typ[types.Bool])
		case token.LEQ:
			return scalar(tCmp("<=", p, q), types.Typ[types.Bool])
		case token.GTR:
			return scalar(tCmp(">", p, q), types.Typ[types.Bool])
		case token.GEQ:
			return scalar(tCmp(">=", p, q), types.Typ[types.Bool])
		case token.SHL:
			if n, ok := isIntLit(q); ok && n >= 0 && n < 62 {
				return x.arith(st, "*", p, intLit(1<<uint(n)), xt, pos)
			}
			return scalar(x.ufApp("bits.shl", SInt, p, q), xt)
		case token.SHR:
			if n, ok := isIntLit(q); ok && n >= 0 && n < 62 {
				return scalar(mk("div", SInt, p, intLit(1<<uint(n))), xt)
			}
			return scalar(x.ufApp("bits.shr", SInt, p, q), xt)
		case token.AND:
			return scalar(x.ufApp("bits.and", SInt, p, q), xt)
		case token.OR:
			return scalar(x.ufApp("bits.or", SInt, p, q), xt)
		case token.XOR:
			return scalar(x.ufApp("bits.xor", SInt, p, q), xt)
		case token.AND_NOT:
			return scalar(x.ufApp("bits.andnot", SInt, p, q), xt)
		}
	}
	x.unsupported("binary op %s on sort %s", op, p.S)
	return nil
}

func (x *Exec) arith(st *State, op string, p, q *Term, t types.Type, pos token.Pos) *Val {
	r := tArith(op, p, q)
	if x.overflow {
		if b, ok := types.Unalias(t).Underlying().(*types.Basic); ok {
			lo, hi := intRange(b)
			if lo != "" {
				x.oblige(st, "overflow", op, tAnd(tCmp(">=", r, intLitStr(lo)), tCmp("<=", r, intLitStr(hi))), pos, "no integer overflow", nil)
			}
		}
	}
	return scalar(r, t)
}

func (x *Exec) strConcat(st *State, p, q *Term) *Term {
	if p == strEmpty || p.Op == "str.empty" {
		return q
	}
	if q == strEmpty || q.Op == "str.empty" {
		return p
	}
	if x.strTheory {
		return mk("str.++", SStr, p, q)
	}
	x.axiomsOn["concat"] = true
	return x.ufApp("concat", SStr, p, q)
}

func (x *Exec) floatBinop(st *State, op token.Token, a, b *Val, pos token.Pos) *Val {
	x.usesReal = true
	an, av, bn, bv := a.F[0].T, a.F[1].T, b.F[0].T, b.F[1].T
	nan := tOr(an, bn)
	fl := func(n, v *Term) *Val {
		return &Val{K: VFloat, Typ: types.Typ[types.Float64], F: []*Val{scalar(n, nil), scalar(v, nil)}}
	}
	switch op {
	case token.ADD:
		return fl(nan, mk("+", SReal, av, bv))
	case token.SUB:
		return fl(nan, mk("-", SReal, av, bv))
	case token.MUL:
		return fl(nan, mk("*", SReal, av, bv))
	case token.QUO:
		// x/0 is ±Inf or NaN: not modelled, result flagged NaN-like (unknown)
		z := tEq(bv, realLitStr("0"))
		return fl(tOr(nan, z), mk("/", SReal, av, bv))
	case token.LSS:
		return scalar(tAnd(tNot(nan), tCmp("<", av, bv)), types.Typ[types.Bool])
	case token.LEQ:
		return scalar(tAnd(tNot(nan), tCmp("<=", av, bv)), types.Typ[types.Bool])
	case token.GTR:
		return scalar(tAnd(tNot(nan), tCmp(">", av, bv)), types.Typ[types.Bool])
	case token.GEQ:
		return scalar(tAnd(tNot(nan), tCmp(">=", av, bv)), types.Typ[types.Bool])
	}
	x.unsupported("float op %s", op)
	return nil
}

func (x *Exec) convert(st *State, v *Val, from, to types.Type, pos token.Pos) *Val {
	fk, fs := classify(from)
	tk, ts := classify(to)
	switch {
	case fk == TScalar && tk == TScalar && fs == ts:
		if fs == SInt && x.overflow {
			if b, ok := types.Unalias(to).Underlying().(*types.Basic); ok {
				lo, hi := intRange(b)
				if fb, ok2 := types.Unalias(from).Underlying().(*types.Basic); ok2 && lo != "" {
					flo, fhi := intRange(fb)
					if flo != lo || fhi != hi {
						x.oblige(st, "overflow", "convert", tAnd(tCmp(">=", v.T, intLitStr(lo)), tCmp("<=", v.T, intLitStr(hi))), pos, "integer conversion in range", nil)
					}
				}
			}
		}
		return retype(v, to)
	case fk == TScalar && fs == SInt && tk == TFloat:
		x.usesReal = true
		return &Val{K: VFloat, Typ: to, F: []*Val{scalar(tFalse, nil), scalar(mk("to_real", SReal, v.T), nil)}}
	case fk == TFloat && tk == TScalar && ts == SInt:
		x.usesReal = true
		// truncation toward zero; NaN and out-of-range are implementation-defined in Go
		val := v.F[1].T
		tr := tIte(tCmp(">=", val, realLitStr("0")), mk("to_int", SInt, val), tArith("-", intLit(0), mk("to_int", SInt, mk("-", SReal, val))))
		if x.overflow {
			if b, ok := types.Unalias(to).Underlying().(*types.Basic); ok {
				lo, hi := intRange(b)
				if lo != "" {
					x.oblige(st, "overflow", "float-to-int", tAnd(tNot(v.F[0].T), tCmp(">=", tr, intLitStr(lo)), tCmp("<=", tr, intLitStr(hi))), pos, "float to integer conversion in range and not NaN", nil)
				}
			}
		}
		// outside the range / NaN the Go result is unspecified: havoc
		res := x.D.fresh("f2i", SInt)
		if b, ok := types.Unalias(to).Underlying().(*types.Basic); ok {
			lo, hi := intRange(b)
			if lo != "" {
				inr := tAnd(tNot(v.F[0].T), tCmp(">=", tr, intLitStr(lo)), tCmp("<=", tr, intLitStr(hi)))
				x.assume(st, tImp(inr, tEq(res, tr)))
				x.assume(st, tAnd(tCmp(">=", res, intLitStr(lo)), tCmp("<=", res, intLitStr(hi))))
				return scalar(res, to)
			}
		}
		return scalar(tr, to)
	case fk == TFloat && tk == TFloat:
		return retype(v, to)
	case fk == TScalar && fs == SInt && tk == TScalar && ts == SStr:
		// string(rune)
		return scalar(x.ufApp("runeToString", SStr, v.T), to)
	}
	r := x.havocVal(to, "convert")
	return r
}
