package main

import (
	"fmt"
	"go/types"
	"os"
	"sort"
	"strings"

	"golang.org/x/tools/go/packages"
	"golang.org/x/tools/go/ssa"
	"golang.org/x/tools/go/ssa/ssautil"
)

// repoDir is /repo; the self-test (and only it) points govc at a scratch worktree through GOVC_REPO.
var repoDir = func() string {
	if d := os.Getenv("GOVC_REPO"); d != "" {
		return d
	}
	return "/repo"
}()
const modPath = "github.com/nuetzliches/hookaido"

// Program is the loaded view of /repo's working tree.
type Program struct {
	Pkgs  map[string]*packages.Package // by short name (queue, ingress, ...)
	SSA   *ssa.Program
	SSAPk map[string]*ssa.Package
	funcs map[string]*ssa.Function // by contract key
}

// loadProgram loads the named internal packages (short names) from the working
// tree with build tag verif and builds NaiveForm SSA for them.
func loadProgram(short []string) (*Program, error) {
	cfg := &packages.Config{
		Mode: packages.NeedName | packages.NeedFiles | packages.NeedCompiledGoFiles |
			packages.NeedImports | packages.NeedTypes | packages.NeedTypesSizes |
			packages.NeedSyntax | packages.NeedTypesInfo | packages.NeedDeps,
		Dir:        repoDir,
		BuildFlags: []string{"-tags=verif"},
		Env:        goEnv(),
	}
	// NeedDeps with NeedTypes but syntax only for roots would be ideal; go/packages
	// gives syntax for all when NeedDeps|NeedSyntax. We restrict by using export data:
	cfg.Mode = packages.NeedName | packages.NeedFiles | packages.NeedCompiledGoFiles |
		packages.NeedImports | packages.NeedTypes | packages.NeedTypesSizes |
		packages.NeedSyntax | packages.NeedTypesInfo
	var pats []string
	for _, s := range short {
		pats = append(pats, modPath+"/internal/"+s)
	}
	pkgs, err := packages.Load(cfg, pats...)
	if err != nil {
		return nil, err
	}
	var errs []string
	for _, p := range pkgs {
		for _, e := range p.Errors {
			errs = append(errs, e.Error())
		}
	}
	if len(errs) > 0 {
		return nil, fmt.Errorf("load errors:\n%s", strings.Join(errs, "\n"))
	}
	prog, spkgs := ssautil.Packages(pkgs, ssa.NaiveForm|ssa.GlobalDebug)
	P := &Program{Pkgs: map[string]*packages.Package{}, SSA: prog, SSAPk: map[string]*ssa.Package{}, funcs: map[string]*ssa.Function{}}
	for i, p := range pkgs {
		if spkgs[i] == nil {
			return nil, fmt.Errorf("no ssa for %s", p.PkgPath)
		}
		spkgs[i].Build()
		P.Pkgs[p.Name] = p
		P.SSAPk[p.Name] = spkgs[i]
	}
	for name, sp := range P.SSAPk {
		P.indexPkg(name, sp)
	}
	return P, nil
}

const goToolchainBin = "/root/go/pkg/mod/golang.org/toolchain@v0.0.1-go1.25.7.linux-amd64/bin"

// goEnv is the offline environment for the go command driving go/packages.
func goEnv() []string {
	var env []string
	for _, e := range os.Environ() {
		if strings.HasPrefix(e, "PATH=") || strings.HasPrefix(e, "GOFLAGS=") || strings.HasPrefix(e, "GOPROXY=") || strings.HasPrefix(e, "GOSUMDB=") || strings.HasPrefix(e, "GOTOOLCHAIN=") {
			continue
		}
		env = append(env, e)
	}
	return append(env, "PATH="+goToolchainBin+":"+os.Getenv("PATH"), "GOFLAGS=-mod=mod", "GOPROXY=off", "GOSUMDB=off", "GOTOOLCHAIN=local", "CGO_ENABLED=0")
}

func (P *Program) indexPkg(name string, sp *ssa.Package) {
	add := func(key string, f *ssa.Function) {
		P.funcs[key] = f
		for i, an := range f.AnonFuncs {
			P.indexAnon(fmt.Sprintf("%s$%d", key, i+1), an)
		}
	}
	for _, m := range sp.Members {
		switch m := m.(type) {
		case *ssa.Function:
			add(name+"."+m.Name(), m)
		case *ssa.Type:
			T := m.Type()
			for _, recv := range []types.Type{T, types.NewPointer(T)} {
				ms := P.SSA.MethodSets.MethodSet(recv)
				for i := 0; i < ms.Len(); i++ {
					sel := ms.At(i)
					fn := P.SSA.MethodValue(sel)
					if fn == nil || fn.Synthetic != "" || fn.Pkg != sp {
						continue
					}
					key := name + "." + recvKey(fn) + "." + fn.Name()
					if _, ok := P.funcs[key]; !ok {
						add(key, fn)
					}
				}
			}
		}
	}
}

func (P *Program) indexAnon(key string, f *ssa.Function) {
	P.funcs[key] = f
	for i, an := range f.AnonFuncs {
		P.indexAnon(fmt.Sprintf("%s$%d", key, i+1), an)
	}
}

func recvKey(fn *ssa.Function) string {
	r := fn.Signature.Recv()
	if r == nil {
		return ""
	}
	t := r.Type()
	if p, ok := t.(*types.Pointer); ok {
		return "(*" + p.Elem().(*types.Named).Obj().Name() + ")"
	}
	if n, ok := t.(*types.Named); ok {
		return "(" + n.Obj().Name() + ")"
	}
	return "(?)"
}

// funcKey returns the contract key of an ssa function in the program, or "".
func (P *Program) funcKey(f *ssa.Function) string {
	if f == nil {
		return ""
	}
	if f.Parent() != nil {
		pk := P.funcKey(f.Parent())
		for i, an := range f.Parent().AnonFuncs {
			if an == f {
				return fmt.Sprintf("%s$%d", pk, i+1)
			}
		}
		return ""
	}
	if f.Pkg == nil {
		// external: fully qualified name
		return extKey(f)
	}
	name := f.Pkg.Pkg.Name()
	if _, ok := P.SSAPk[name]; !ok || P.SSAPk[name] != f.Pkg {
		return extKey(f)
	}
	if f.Signature.Recv() != nil {
		return name + "." + recvKey(f) + "." + f.Name()
	}
	return name + "." + f.Name()
}

func extKey(f *ssa.Function) string {
	if f.Object() != nil {
		if fo, ok := f.Object().(*types.Func); ok {
			return extFuncKey(fo)
		}
	}
	return f.String()
}

func extFuncKey(fo *types.Func) string {
	sig := fo.Type().(*types.Signature)
	pkg := ""
	if fo.Pkg() != nil {
		pkg = fo.Pkg().Path()
		if strings.HasPrefix(pkg, modPath+"/internal/") {
			pkg = strings.TrimPrefix(pkg, modPath+"/internal/")
		}
	}
	if r := sig.Recv(); r != nil {
		t := r.Type()
		ptr := false
		if p, ok := t.(*types.Pointer); ok {
			t = p.Elem()
			ptr = true
		}
		tn := "?"
		if n, ok := t.(*types.Named); ok {
			tn = n.Obj().Name()
		}
		if ptr {
			return pkg + ".(*" + tn + ")." + fo.Name()
		}
		return pkg + ".(" + tn + ")." + fo.Name()
	}
	return pkg + "." + fo.Name()
}

func (P *Program) sortedFuncKeys() []string {
	var ks []string
	for k := range P.funcs {
		ks = append(ks, k)
	}
	sort.Strings(ks)
	return ks
}

var repoPkgDirs map[string]bool

// isRepoKey: the contract key names a function of the repository (internal/<pkg>), not of the standard library or a dependency.
func (P *Program) isRepoKey(key string) bool {
	if repoPkgDirs == nil {
		repoPkgDirs = map[string]bool{}
		if es, err := os.ReadDir(repoDir + "/internal"); err == nil {
			for _, e := range es {
				if e.IsDir() {
					repoPkgDirs[e.Name()] = true
				}
			}
		}
	}
	i := strings.Index(key, ".")
	if i <= 0 {
		return false
	}
	head := key[:i]
	if j := strings.Index(head, "/"); j > 0 {
		head = head[:j]
	}
	return repoPkgDirs[head]
}
