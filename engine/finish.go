package main

import (
	"fmt"
	"go/types"
	"sort"
	"strings"
)

// finish merges all return points and emits the postcondition and frame obligations.
func (x *Exec) finish() error {
	if len(x.exitEdges) == 0 {
		// function never returns normally on any modelled path
		return nil
	}
	// results: merge per exit
	nres := len(x.resultTyp)
	var exit *State
	if len(x.exitEdges) == 1 {
		exit = x.exitEdges[0].st
		x.results = x.retVals[exit]
	} else {
		m, err := x.mergeStates("exit", x.exitEdges)
		if err != nil {
			return err
		}
		exit = m
		for i := 0; i < nres; i++ {
			i := i
			v, err := x.mergeVal(fmt.Sprintf("res%d", i), x.exitEdges, func(s *State) *Val { return x.retVals[s][i] })
			if err != nil {
				return err
			}
			x.results = append(x.results, v)
		}
	}
	for i := range x.results {
		if x.results[i].Typ == nil {
			x.results[i] = retype(x.results[i], x.resultTyp[i])
		}
	}
	x.exit = exit
	if x.fc == nil {
		return nil
	}
	ctx := x.specCtx(exit, nil)
	for _, od := range x.fc.Old {
		c2 := ctx.inState(ctx.old)
		v, err := x.specEval(c2, od.E)
		if err != nil {
			return fmt.Errorf("old %s: %v", od.Name, err)
		}
		ctx.vars[od.Name] = v
	}
	// ghost assignments at exit (the function under verification establishes these facts)
	newGhost := map[string]*Val{}
	for _, sd := range x.fc.Sets {
		if _, ok := x.C.Ghosts[sd.Name]; !ok {
			return fmt.Errorf("sets %s: not a declared ghost variable", sd.Name)
		}
		v, err := x.specEval(ctx, sd.E)
		if err != nil {
			return fmt.Errorf("sets %s: %v", sd.Name, err)
		}
		newGhost[sd.Name] = v
	}
	for k, v := range newGhost {
		exit.ghost[k] = v
	}
	for _, e := range x.fc.Ensures {
		t, err := x.specBool(ctx, e.E)
		if err != nil {
			return fmt.Errorf("%s: ensures: %v", e.Where, err)
		}
		if e.Assumed {
			// a clause the function's own contract takes on trust (e.g. "the result is a deterministic function of the
			// argument" for a body made of external calls): no obligation, reported with the trusted base
			x.trusted["assumed clause (not proved): "+x.key+"#"+e.Label] = true
			continue
		}
		x.oblige(exit, "ensures", e.Label, t, x.fn.Pos(), e.Src, e.Tags)
	}
	// frame: everything not named in modifies is unchanged relative to the snapshot
	if !x.fc.ModAll && x.fc.Kind == "func" && !x.fc.NoFrame {
		if err := x.frameObligations(exit, ctx); err != nil {
			return err
		}
	}
	// every `calls` clause must have matched at least one call site
	for _, cr := range x.fc.Calls {
		if !x.matchedCalls[cr.Label+"|"+cr.Callee] {
			x.oblige(exit, "calls", cr.Label+":no-call-site", tFalse, x.fn.Pos(), "calls clause matched no call site of "+cr.Callee, nil)
		}
	}
	return nil
}

// frameObligations: for each heap key whose term changed since the old-snapshot, require that
// the change is covered by a modifies entry (objects allocated by this function are exempt).
func (x *Exec) frameObligations(exit *State, ctx *SpecCtx) error {
	old := ctx.old
	// compute allowed-location predicates per key from modifies entries
	type allow struct {
		whole bool
		refs  []*Term // object refs (or map refs / array refs) allowed to change under this key
	}
	allowed := map[string]*allow{}
	get := func(k string) *allow {
		a := allowed[k]
		if a == nil {
			a = &allow{}
			allowed[k] = a
		}
		return a
	}
	octx := ctx.inState(old)
	octx.inOld = true
	for _, m := range x.fc.Modifies {
		if err := x.frameAllow(octx, m, func(key string, whole bool, ref *Term) {
			a := get(key)
			if whole {
				a.whole = true
			} else {
				a.refs = append(a.refs, ref)
			}
		}); err != nil {
			return fmt.Errorf("%s: modifies %s: %v", x.fc.Where, m.String(), err)
		}
	}
	oldAlloc := x.heapGet(old, allocKey, arr(SInt, SBool))
	keys := sortedKeys(x.heapSort)
	for _, k := range keys {
		if k == allocKey {
			continue
		}
		s := x.heapSort[k]
		cur, prev := x.heapGet(exit, k, s), x.heapGet(old, k, s)
		if cur == prev || cur.String() == prev.String() {
			continue
		}
		a := allowed[k]
		if a != nil && a.whole {
			continue
		}
		if x.usesAlloc && !x.dirtyAll && !x.dirty[k] {
			// every write under this key went to an object this function allocated itself (and no callee, loop
			// havoc or lock section touched the key): objects allocated before the call are unchanged by construction
			x.oblige(exit, "frame", frameLabel(k), tTrue, x.fn.Pos(), "locations not named in modifies are unchanged: "+k+" (only objects allocated by this function are written)", nil)
			continue
		}
		r := &Term{Op: "r!f", S: SInt}
		cond := []*Term{}
		if x.usesAlloc {
			cond = append(cond, tSelect(oldAlloc, r))
		}
		if a != nil {
			for _, ref := range a.refs {
				cond = append(cond, tNot(tEq(r, ref)))
			}
		}
		goal := tForall([]*Term{r}, tImp(tAnd(cond...), tEq(tSelect(cur, r), tSelect(prev, r))), []*Term{tSelect(cur, r)})
		x.oblige(exit, "frame", frameLabel(k), goal, x.fn.Pos(), "locations not named in modifies are unchanged: "+k, nil)
	}
	return nil
}

func frameLabel(k string) string {
	return strings.NewReplacer("|", ".", "#", ".").Replace(k)
}

// frameAllow enumerates (key, ref) pairs a modifies entry permits.
func (x *Exec) frameAllow(c *SpecCtx, m *Expr, emit func(key string, whole bool, ref *Term)) error {
	switch m.Kind {
	case "ident":
		if _, ok := x.C.Ghosts[m.Name]; ok {
			if _, bound := c.vars[m.Name]; !bound {
				return nil
			}
		}
		for _, fv := range x.freeVarRefs {
			// a captured variable named in a closure's modifies: the closure may assign it
			if fv.name == m.Name {
				for _, lf := range leavesOf(fv.typ) {
					emit(objKey(fv.typ, lf.Path), false, fv.ref)
				}
				return nil
			}
		}
		v, err := x.specEval(c, m)
		if err != nil {
			return err
		}
		return x.frameAllowContent(v, emit)
	case "field":
		if m.Args[0].Kind == "ident" {
			if t, ok := x.isTypeName(c, m.Args[0].Name); ok {
				return x.frameAllowType(t, m.Name, emit)
			}
		}
		if m.Args[0].Kind == "field" && m.Args[0].Args[0].Kind == "ident" {
			if t, err := x.goType(m.Args[0].Args[0].Name+"."+m.Args[0].Name, c.pkg); err == nil {
				if _, bound := c.vars[m.Args[0].Args[0].Name]; !bound {
					if _, isParam := x.params[m.Args[0].Args[0].Name]; !isParam {
						return x.frameAllowType(t, m.Name, emit)
					}
				}
			}
		}
		b, err := x.specEval(c, m.Args[0])
		if err != nil {
			return err
		}
		pt, ok := b.Typ.Underlying().(*types.Pointer)
		if !ok {
			return fmt.Errorf("base is not a pointer")
		}
		stt := pt.Elem().Underlying().(*types.Struct)
		for i := 0; i < stt.NumFields(); i++ {
			f := stt.Field(i)
			if m.Name != "*" && f.Name() != m.Name {
				continue
			}
			if _, isMap := f.Type().Underlying().(*types.Map); isMap && m.Name != "*" {
				cur := x.loadObj(c.st, b.T, pt.Elem(), f.Name(), f.Type())
				return x.frameAllowContent(cur, emit)
			}
			for _, lf := range leavesUnder(f.Type(), f.Name()) {
				emit(objKey(pt.Elem(), lf), false, b.T)
			}
		}
		return nil
	case "index":
		b, err := x.specEval(c, m.Args[0])
		if err != nil {
			return err
		}
		if b.K != VSlice {
			return fmt.Errorf("not a slice")
		}
		et := b.Typ.Underlying().(*types.Slice).Elem()
		for _, lf := range leavesOf(et) {
			emit(sliceKey(et, lf.Path), false, b.F[0].T)
		}
		return nil
	case "call":
		if m.Name == "maps" && len(m.Args) == 1 {
			mt, err := x.mapTypeOf(c, m.Args[0])
			if err != nil {
				return err
			}
			for _, key := range mapKeys(mt) {
				emit(key, true, nil)
			}
			return nil
		}
		if m.Name == "elems" && len(m.Args) == 1 {
			// elems(T): the elements of every []T (type-wide, like T.f for pointees); needed when a loop writes elements
			// of a slice the function built itself (loop havoc is type-wide)
			et, err := x.goType(m.Args[0].String(), c.pkg)
			if err != nil {
				return fmt.Errorf("elems(%s): %v", m.Args[0].String(), err)
			}
			for _, lf := range leavesOf(et) {
				emit(sliceKey(et, lf.Path), true, nil)
			}
			return nil
		}
		if m.Name == "field" && len(m.Args) == 1 && m.Args[0].Kind == "field" {
			b, err := x.specEval(c, m.Args[0].Args[0])
			if err != nil {
				return err
			}
			pt := b.Typ.Underlying().(*types.Pointer)
			stt := pt.Elem().Underlying().(*types.Struct)
			for i := 0; i < stt.NumFields(); i++ {
				f := stt.Field(i)
				if f.Name() != m.Args[0].Name {
					continue
				}
				for _, lf := range leavesUnder(f.Type(), f.Name()) {
					emit(objKey(pt.Elem(), lf), false, b.T)
				}
			}
			return nil
		}
	}
	return fmt.Errorf("unsupported modifies entry")
}

func (x *Exec) frameAllowContent(v *Val, emit func(string, bool, *Term)) error {
	if v.K == VScalar && v.Typ != nil {
		switch t := v.Typ.Underlying().(type) {
		case *types.Map:
			for _, key := range mapKeys(t) {
				emit(key, false, v.T)
			}
			return nil
		case *types.Pointer:
			for _, lf := range leavesOf(t.Elem()) {
				emit(objKey(t.Elem(), lf.Path), false, v.T)
			}
			return nil
		}
	}
	return fmt.Errorf("value has no modelled content")
}

func (x *Exec) frameAllowType(t types.Type, field string, emit func(string, bool, *Term)) error {
	stt, ok := t.Underlying().(*types.Struct)
	if !ok {
		return fmt.Errorf("not a struct type")
	}
	for i := 0; i < stt.NumFields(); i++ {
		f := stt.Field(i)
		if field != "*" && f.Name() != field {
			continue
		}
		for _, lf := range leavesUnder(f.Type(), f.Name()) {
			emit(objKey(t, lf), true, nil)
		}
	}
	return nil
}

// emitAxioms adds the spec layer's axioms (closed formulas) to the background.
func (x *Exec) emitAxioms(st *State) error {
	for _, ax := range x.C.Axioms {
		if !x.axiomRelevant(ax) {
			continue
		}
		c := &SpecCtx{st: st, old: st, vars: map[string]*Val{}, pkg: ax.Pkg, locals: false}
		t, err := x.specBool(c, ax.E)
		if err != nil {
			return fmt.Errorf("%s: axiom: %v", ax.Where, err)
		}
		x.asserts = append(x.asserts, t)
		x.axiomsUsed[ax.Label+" ("+ax.Where+")"] = true
	}
	return nil
}

// axiomRelevant: axioms are included when the package matches or they are global ("*").
func (x *Exec) axiomRelevant(ax AxiomDecl) bool {
	if ax.Pkg == "*" || ax.Pkg == "" {
		return true
	}
	pk := x.pkg
	if x.fc != nil && x.fc.Pkg != "" {
		pk = x.fc.Pkg
	}
	return ax.Pkg == pk
}

// prelude returns the SMT-LIB header (sorts, literals, library axioms).
func (x *Exec) prelude() string {
	if x.preludeText != "" {
		return x.preludeText
	}
	x.preludeText = x.buildPrelude()
	return x.preludeText
}

func (x *Exec) buildPrelude() string {
	var b strings.Builder
	b.WriteString("(set-logic ALL)\n")
	if x.strTheory {
		b.WriteString("(define-sort Str () String)\n(define-fun str.empty () Str \"\")\n(define-fun strlen ((s Str)) Int (str.len s))\n")
	} else {
		b.WriteString("(declare-sort Str 0)\n(declare-fun str.empty () Str)\n(declare-fun strlen (Str) Int)\n")
	}
	b.WriteString("(declare-sort Err 0)\n(declare-sort Any 0)\n(declare-fun err.nil () Err)\n(declare-fun any.nil () Any)\n")
	b.WriteString("(define-fun go_div ((a Int) (b Int)) Int (ite (>= a 0) (ite (> b 0) (div a b) (- (div a (- b)))) (ite (> b 0) (- (div (- a) b)) (div (- a) (- b)))))\n")
	b.WriteString("(define-fun go_mod ((a Int) (b Int)) Int (- a (* b (go_div a b))))\n")
	if !x.strTheory {
		for i := range x.litOrder {
			fmt.Fprintf(&b, "(declare-fun lit!%d () Str)\n", i)
		}
	}
	b.WriteString(x.D.text())
	// literal facts
	if !x.strTheory {
		if len(x.litOrder) > 0 {
			b.WriteString("(assert (distinct str.empty")
			for i := range x.litOrder {
				fmt.Fprintf(&b, " lit!%d", i)
			}
			b.WriteString("))\n")
		}
		for i, s := range x.litOrder {
			fmt.Fprintf(&b, "(assert (= (strlen lit!%d) %d))\n", i, len(s))
		}
		b.WriteString("(assert (= (strlen str.empty) 0))\n")
		b.WriteString("(assert (forall ((s Str)) (! (and (>= (strlen s) 0) (=> (= (strlen s) 0) (= s str.empty))) :pattern ((strlen s)))))\n")
	}
	// sentinels
	var sn []string
	for _, k := range sortedKeys(x.sentinel) {
		sn = append(sn, x.sentinel[k].Op)
	}
	if len(sn) > 0 {
		b.WriteString("(assert (distinct err.nil " + strings.Join(sn, " ") + "))\n")
	}
	// library axioms switched on by use
	lit := func(s string) string { return x.strLitText(s) }
	for _, k := range sortedKeys(x.axiomsOn) {
		switch {
		case strings.HasPrefix(k, "str1:"):
			fn := "uf.str." + k[5:]
			name := k[5:]
			fmt.Fprintf(&b, "(assert (forall ((s Str)) (! (= (%s (%s s)) (%s s)) :pattern ((%s s)))))\n", fn, fn, fn, fn)
			fmt.Fprintf(&b, "(assert (= (%s str.empty) str.empty))\n", fn)
			switch name {
			case "trim", "trimslashes":
				fmt.Fprintf(&b, "(assert (forall ((s Str)) (! (<= (strlen (%s s)) (strlen s)) :pattern ((%s s)))))\n", fn, fn)
			case "lower", "upper":
				fmt.Fprintf(&b, "(assert (forall ((s Str)) (! (= (strlen (%s s)) (strlen s)) :pattern ((%s s)))))\n", fn, fn)
			case "canon":
				fmt.Fprintf(&b, "(assert (forall ((s Str)) (! (= (strlen (%s s)) (strlen s)) :pattern ((%s s)))))\n", fn, fn)
			}
			// ground facts for every literal in the query (computed with the real Go function)
			for _, s := range x.litOrder {
				img := goStr1(name, s)
				if _, known := x.lits[img]; !known && img != "" {
					continue // image literal not in the query: fact not needed
				}
				fmt.Fprintf(&b, "(assert (= (%s %s) %s))\n", fn, lit(s), lit(img))
			}
			if name == "lower" && x.axiomsOn["str1:canon"] {
				// lower(canon(s)) = lower(s): canonicalisation only changes letter case (for valid header tokens)
				b.WriteString("(assert (forall ((s Str)) (! (= (uf.str.lower (uf.str.canon s)) (uf.str.lower s)) :pattern ((uf.str.canon s)))))\n")
			}
		case k == "prefixof":
			b.WriteString("(assert (forall ((s Str)) (! (uf.str.prefixof str.empty s) :pattern ((uf.str.prefixof str.empty s)))))\n")
			b.WriteString("(assert (forall ((p Str) (s Str)) (! (=> (uf.str.prefixof p s) (<= (strlen p) (strlen s))) :pattern ((uf.str.prefixof p s)))))\n")
			b.WriteString("(assert (forall ((p Str) (s Str)) (! (=> (and (uf.str.prefixof p s) (= (strlen p) (strlen s))) (= p s)) :pattern ((uf.str.prefixof p s)))))\n")
			b.WriteString("(assert (forall ((s Str)) (! (uf.str.prefixof s s) :pattern ((uf.str.prefixof s s)))))\n")
		case k == "suffixof":
			b.WriteString("(assert (forall ((p Str) (s Str)) (! (=> (uf.str.suffixof p s) (<= (strlen p) (strlen s))) :pattern ((uf.str.suffixof p s)))))\n")
			b.WriteString("(assert (forall ((p Str) (s Str)) (! (=> (and (uf.str.suffixof p s) (= (strlen p) (strlen s))) (= p s)) :pattern ((uf.str.suffixof p s)))))\n")
			b.WriteString("(assert (forall ((s Str)) (! (uf.str.suffixof s s) :pattern ((uf.str.suffixof s s)))))\n")
		case k == "trimprefix":
			b.WriteString("(assert (forall ((s Str) (p Str)) (! (=> (not (uf.str.prefixof p s)) (= (uf.str.trimprefix s p) s)) :pattern ((uf.str.trimprefix s p)))))\n")
		case k == "trimsuffix":
			b.WriteString("(assert (forall ((s Str) (p Str)) (! (=> (not (uf.str.suffixof p s)) (= (uf.str.trimsuffix s p) s)) :pattern ((uf.str.trimsuffix s p)))))\n")
		case k == "errIs":
			b.WriteString("(assert (forall ((e Err)) (! (=> (not (= e err.nil)) (uf.errIs e e)) :pattern ((uf.errIs e e)))))\n")
			b.WriteString("(assert (forall ((t Err)) (! (not (uf.errIs err.nil t)) :pattern ((uf.errIs err.nil t)))))\n")
			// distinct sentinels are not each other
			ks := sortedKeys(x.sentinel)
			for _, a := range ks {
				for _, c := range ks {
					if a != c {
						fmt.Fprintf(&b, "(assert (not (uf.errIs %s %s)))\n", x.sentinel[a].Op, x.sentinel[c].Op)
					}
				}
			}
		case k == "pow":
			b.WriteString("(assert (forall ((e Real)) (! (=> (>= e 0.0) (>= (uf.pow 2.0 e) 1.0)) :pattern ((uf.pow 2.0 e)))))\n")
			b.WriteString("(assert (= (uf.pow 2.0 0.0) 1.0))\n")
			b.WriteString("(assert (forall ((e Real)) (! (> (uf.pow 2.0 e) 0.0) :pattern ((uf.pow 2.0 e)))))\n")
		case k == "concat":
			b.WriteString("(assert (forall ((p Str) (q Str)) (! (= (strlen (uf.concat p q)) (+ (strlen p) (strlen q))) :pattern ((uf.concat p q)))))\n")
			b.WriteString("(assert (forall ((p Str)) (! (= (uf.concat p str.empty) p) :pattern ((uf.concat p str.empty)))))\n")
			b.WriteString("(assert (forall ((p Str)) (! (= (uf.concat str.empty p) p) :pattern ((uf.concat str.empty p)))))\n")
		case k == "hexdec":
			b.WriteString("(assert (forall ((s Str)) (! (and (uf.hexvalid (uf.hex s)) (= (uf.hexdec (uf.hex s)) s)) :pattern ((uf.hex s)))))\n")
		case k == "b64":
			b.WriteString("(assert (forall ((s Str)) (! (and (uf.b64valid (uf.b64 s)) (= (uf.b64dec (uf.b64 s)) s)) :pattern ((uf.b64 s)))))\n")
		case k == "strlt":
			b.WriteString("(assert (forall ((a Str)) (! (not (uf.strlt a a)) :pattern ((uf.strlt a a)))))\n")
			b.WriteString("(assert (forall ((a Str) (b Str)) (! (=> (uf.strlt a b) (not (uf.strlt b a))) :pattern ((uf.strlt a b)))))\n")
			b.WriteString("(assert (forall ((a Str) (b Str)) (! (or (uf.strlt a b) (= a b) (uf.strlt b a)) :pattern ((uf.strlt a b)))))\n")
			b.WriteString("(assert (forall ((a Str) (b Str) (c Str)) (! (=> (and (uf.strlt a b) (uf.strlt b c)) (uf.strlt a c)) :pattern ((uf.strlt a b) (uf.strlt b c)))))\n")
		case k == "epoch":
			b.WriteString("(assert (= time.epoch 62135596800000000000))\n") // ns between the zero time.Time and the Unix epoch
		case strings.HasPrefix(k, "card:"):
			ks := k[5:]
			fn := "card." + sanitize(ks)
			setS := "(Array " + ks + " Bool)"
			fmt.Fprintf(&b, "(assert (= (%s ((as const %s) false)) 0))\n", fn, setS)
			fmt.Fprintf(&b, "(assert (forall ((S %s)) (! (>= (%s S) 0) :pattern ((%s S)))))\n", setS, fn, fn)
			fmt.Fprintf(&b, "(assert (forall ((S %s) (k %s)) (! (= (%s (store S k true)) (ite (select S k) (%s S) (+ (%s S) 1))) :pattern ((%s (store S k true))))))\n", setS, ks, fn, fn, fn, fn)
			fmt.Fprintf(&b, "(assert (forall ((S %s) (k %s)) (! (= (%s (store S k false)) (ite (select S k) (- (%s S) 1) (%s S))) :pattern ((%s (store S k false))))))\n", setS, ks, fn, fn, fn, fn)
		}
	}
	return b.String()
}

func (x *Exec) strLitText(s string) string {
	if s == "" {
		return "str.empty"
	}
	if t, ok := x.lits[s]; ok {
		return t.Op
	}
	return x.strLit(s).Op
}

func goStr1(name, s string) string {
	switch name {
	case "trim":
		return strings.TrimSpace(s)
	case "lower":
		return strings.ToLower(s)
	case "upper":
		return strings.ToUpper(s)
	case "canon":
		return canonicalHeaderKey(s)
	case "cleanpath":
		return pathClean(s)
	case "trimslashes":
		return strings.Trim(s, "/")
	}
	return s
}

func sortObls(obls []*Obligation) {
	sort.SliceStable(obls, func(i, j int) bool { return obls[i].Name < obls[j].Name })
}
