package main

import (
	"fmt"
	"sort"
	"strconv"
	"strings"
)

// Sort is an SMT-LIB sort, written out.
type Sort string

const (
	SBool Sort = "Bool"
	SInt  Sort = "Int"
	SReal Sort = "Real"
	SStr  Sort = "Str" // defined per query: String (theory) or an uninterpreted sort (opaque)
	SErr  Sort = "Err"
	SAny  Sort = "Any"
)

func arr(k, v Sort) Sort { return Sort("(Array " + string(k) + " " + string(v) + ")") }

// arrParts splits "(Array K V)" into K and V.
func arrParts(s Sort) (Sort, Sort, bool) {
	str := string(s)
	if !strings.HasPrefix(str, "(Array ") {
		return "", "", false
	}
	body := str[len("(Array ") : len(str)-1]
	depth := 0
	for i, c := range body {
		switch c {
		case '(':
			depth++
		case ')':
			depth--
		case ' ':
			if depth == 0 {
				return Sort(body[:i]), Sort(body[i+1:]), true
			}
		}
	}
	return "", "", false
}

// Term is an SMT term (hash-consed by string for cheap equality).
type Term struct {
	Op   string // symbol, literal, or operator
	Args []*Term
	S    Sort
	str  string
	dep  int32 // nesting depth (0 for leaves), maintained by mk
	// binders for quantifiers
	Bound []*Term // bound variable symbols (Op=name,S=sort) for forall/exists
	Pats  [][]*Term
}

func (t *Term) String() string {
	if t.str != "" {
		return t.str
	}
	var b strings.Builder
	t.write(&b)
	t.str = b.String()
	return t.str
}

func (t *Term) write(b *strings.Builder) {
	if t.str != "" {
		b.WriteString(t.str)
		return
	}
	if t.Op == "forall" || t.Op == "exists" {
		b.WriteString("(" + t.Op + " (")
		for _, v := range t.Bound {
			b.WriteString("(" + v.Op + " " + string(v.S) + ")")
		}
		b.WriteString(") ")
		if len(t.Pats) > 0 {
			b.WriteString("(! ")
			t.Args[0].write(b)
			for _, p := range t.Pats {
				b.WriteString(" :pattern (")
				for i, x := range p {
					if i > 0 {
						b.WriteString(" ")
					}
					x.write(b)
				}
				b.WriteString(")")
			}
			b.WriteString(")")
		} else {
			t.Args[0].write(b)
		}
		b.WriteString(")")
		return
	}
	if len(t.Args) == 0 {
		b.WriteString(t.Op)
		return
	}
	b.WriteString("(")
	b.WriteString(t.Op)
	for _, a := range t.Args {
		b.WriteString(" ")
		a.write(b)
	}
	b.WriteString(")")
}

func mk(op string, s Sort, args ...*Term) *Term {
	var d int32
	for _, a := range args {
		if a != nil && a.dep > d {
			d = a.dep
		}
	}
	return &Term{Op: op, Args: args, S: s, dep: d + 1}
}

var (
	tTrue  = &Term{Op: "true", S: SBool}
	tFalse = &Term{Op: "false", S: SBool}
)

func isTrue(t *Term) bool  { return t.Op == "true" && len(t.Args) == 0 }
func isFalse(t *Term) bool { return t.Op == "false" && len(t.Args) == 0 }

func intLit(n int64) *Term {
	if n < 0 {
		return &Term{Op: "(- " + strconv.FormatInt(-n, 10) + ")", S: SInt}
	}
	return &Term{Op: strconv.FormatInt(n, 10), S: SInt}
}

func intLitStr(s string) *Term {
	if strings.HasPrefix(s, "-") {
		return &Term{Op: "(- " + s[1:] + ")", S: SInt}
	}
	return &Term{Op: s, S: SInt}
}

func realLitStr(s string) *Term {
	// s is a decimal like 0.5 or an integer
	neg := strings.HasPrefix(s, "-")
	if neg {
		s = s[1:]
	}
	if !strings.Contains(s, ".") {
		s += ".0"
	}
	if neg {
		return &Term{Op: "(- " + s + ")", S: SReal}
	}
	return &Term{Op: s, S: SReal}
}

func isIntLit(t *Term) (int64, bool) {
	if len(t.Args) != 0 || t.S != SInt {
		return 0, false
	}
	s := t.Op
	if strings.HasPrefix(s, "(- ") {
		n, err := strconv.ParseInt(s[3:len(s)-1], 10, 64)
		return -n, err == nil
	}
	n, err := strconv.ParseInt(s, 10, 64)
	return n, err == nil
}

func tAnd(xs ...*Term) *Term {
	var out []*Term
	for _, x := range xs {
		if x == nil || isTrue(x) {
			continue
		}
		if isFalse(x) {
			return tFalse
		}
		if x.Op == "and" {
			out = append(out, x.Args...)
			continue
		}
		out = append(out, x)
	}
	if len(out) == 0 {
		return tTrue
	}
	if len(out) == 1 {
		return out[0]
	}
	return mk("and", SBool, out...)
}

func tOr(xs ...*Term) *Term {
	var out []*Term
	for _, x := range xs {
		if x == nil || isFalse(x) {
			continue
		}
		if isTrue(x) {
			return tTrue
		}
		if x.Op == "or" {
			out = append(out, x.Args...)
			continue
		}
		out = append(out, x)
	}
	if len(out) == 0 {
		return tFalse
	}
	if len(out) == 1 {
		return out[0]
	}
	return mk("or", SBool, out...)
}

func tNot(x *Term) *Term {
	if isTrue(x) {
		return tFalse
	}
	if isFalse(x) {
		return tTrue
	}
	if x.Op == "not" {
		return x.Args[0]
	}
	return mk("not", SBool, x)
}

func tImp(a, b *Term) *Term {
	if isTrue(a) {
		return b
	}
	if isFalse(a) || isTrue(b) {
		return tTrue
	}
	return mk("=>", SBool, a, b)
}

func tEq(a, b *Term) *Term {
	if a == b || a.String() == b.String() {
		return tTrue
	}
	if a.S != b.S {
		panic(fmt.Sprintf("tEq sort mismatch: %s:%s vs %s:%s", a, a.S, b, b.S))
	}
	return mk("=", SBool, a, b)
}

func tIte(c, a, b *Term) *Term {
	if isTrue(c) {
		return a
	}
	if isFalse(c) {
		return b
	}
	if a == b || a.String() == b.String() {
		return a
	}
	if a.S != b.S {
		panic(fmt.Sprintf("tIte sort mismatch: %s:%s vs %s:%s", a, a.S, b, b.S))
	}
	return mk("ite", a.S, c, a, b)
}

func tSelect(a, i *Term) *Term {
	_, v, ok := arrParts(a.S)
	if !ok {
		panic("select on non-array " + a.String() + " : " + string(a.S))
	}
	// read-over-write simplification for syntactically equal index
	if a.Op == "store" && a.Args[1].String() == i.String() {
		return a.Args[2]
	}
	return mk("select", v, a, i)
}

func tStore(a, i, v *Term) *Term {
	_, vs, ok := arrParts(a.S)
	if !ok {
		panic("store on non-array " + a.String())
	}
	if vs != v.S {
		panic(fmt.Sprintf("store sort mismatch: array %s value %s:%s", a.S, v, v.S))
	}
	return mk("store", a.S, a, i, v)
}

func constArr(s Sort, v *Term) *Term {
	return &Term{Op: "((as const " + string(s) + ") " + v.String() + ")", S: s}
}

func tArith(op string, a, b *Term) *Term {
	if op == "+" {
		if x, ok := isIntLit(a); ok && x == 0 {
			return b
		}
		if y, ok := isIntLit(b); ok && y == 0 {
			return a
		}
	}
	if op == "-" {
		if y, ok := isIntLit(b); ok && y == 0 {
			return a
		}
	}
	if x, ok := isIntLit(a); ok {
		if y, ok2 := isIntLit(b); ok2 {
			switch op {
			case "+":
				return intLit(x + y)
			case "-":
				return intLit(x - y)
			case "*":
				if (x == 0 || y == 0) || (abs64(x) < 1<<31 && abs64(y) < 1<<31) {
					return intLit(x * y)
				}
			}
		}
	}
	return mk(op, a.S, a, b)
}

func abs64(x int64) int64 {
	if x < 0 {
		return -x
	}
	return x
}

func tCmp(op string, a, b *Term) *Term { return mk(op, SBool, a, b) }

func tForall(bound []*Term, body *Term, pats ...[]*Term) *Term {
	if len(bound) == 0 || isTrue(body) {
		return body
	}
	return &Term{Op: "forall", Args: []*Term{body}, S: SBool, Bound: bound, Pats: pats}
}

func tExists(bound []*Term, body *Term) *Term {
	if len(bound) == 0 {
		return body
	}
	return &Term{Op: "exists", Args: []*Term{body}, S: SBool, Bound: bound}
}

func smtStringLit(s string) string {
	var b strings.Builder
	b.WriteByte('"')
	for _, r := range []byte(s) {
		switch {
		case r == '"':
			b.WriteString(`""`)
		case r >= 0x20 && r < 0x7f && r != '\\':
			b.WriteByte(r)
		default:
			fmt.Fprintf(&b, `\u{%x}`, r)
		}
	}
	b.WriteByte('"')
	return b.String()
}

// substTerm replaces free occurrences of symbols by terms.
func substTerm(t *Term, m map[string]*Term) *Term {
	if len(m) == 0 {
		return t
	}
	if len(t.Args) == 0 && len(t.Bound) == 0 {
		if r, ok := m[t.Op]; ok {
			return r
		}
		return t
	}
	if len(t.Bound) > 0 {
		m2 := m
		for _, bv := range t.Bound {
			if _, ok := m[bv.Op]; ok {
				if &m2 == &m || len(m2) == len(m) {
					m2 = map[string]*Term{}
					for k, v := range m {
						m2[k] = v
					}
				}
				delete(m2, bv.Op)
			}
		}
		nb := substTerm(t.Args[0], m2)
		var np [][]*Term
		for _, p := range t.Pats {
			var q []*Term
			for _, x := range p {
				q = append(q, substTerm(x, m2))
			}
			np = append(np, q)
		}
		return &Term{Op: t.Op, Args: []*Term{nb}, S: t.S, Bound: t.Bound, Pats: np}
	}
	changed := false
	na := make([]*Term, len(t.Args))
	for i, a := range t.Args {
		na[i] = substTerm(a, m)
		if na[i] != a {
			changed = true
		}
	}
	if !changed {
		return t
	}
	return &Term{Op: t.Op, Args: na, S: t.S}
}

// termSize counts nodes (for the VC size cap report).
func termSize(t *Term) int {
	n := 1
	for _, a := range t.Args {
		n += termSize(a)
	}
	return n
}

// Decls tracks declared symbols in creation order.
type Decls struct {
	order []string
	kind  map[string]string // name -> full declaration text
	n     int
}

func newDecls() *Decls { return &Decls{kind: map[string]string{}} }

func (d *Decls) declareConst(name string, s Sort) *Term {
	if _, ok := d.kind[name]; !ok {
		d.kind[name] = fmt.Sprintf("(declare-fun %s () %s)", name, s)
		d.order = append(d.order, name)
	}
	return &Term{Op: name, S: s}
}

func (d *Decls) declareFun(name string, args []Sort, res Sort) {
	if _, ok := d.kind[name]; ok {
		return
	}
	var as []string
	for _, a := range args {
		as = append(as, string(a))
	}
	d.kind[name] = fmt.Sprintf("(declare-fun %s (%s) %s)", name, strings.Join(as, " "), res)
	d.order = append(d.order, name)
}

func (d *Decls) fresh(prefix string, s Sort) *Term {
	d.n++
	name := fmt.Sprintf("%s!%d", sanitize(prefix), d.n)
	return d.declareConst(name, s)
}

func (d *Decls) text() string {
	var b strings.Builder
	for _, n := range d.order {
		b.WriteString(d.kind[n])
		b.WriteByte('\n')
	}
	return b.String()
}

func sanitize(s string) string {
	var b strings.Builder
	for _, c := range s {
		switch {
		case c >= 'a' && c <= 'z', c >= 'A' && c <= 'Z', c >= '0' && c <= '9', c == '_', c == '.', c == '$':
			b.WriteRune(c)
		default:
			b.WriteByte('_')
		}
	}
	if b.Len() == 0 {
		return "x"
	}
	return b.String()
}

func sortedKeys[V any](m map[string]V) []string {
	ks := make([]string, 0, len(m))
	for k := range m {
		ks = append(ks, k)
	}
	sort.Strings(ks)
	return ks
}
