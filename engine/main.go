package main

import (
	"fmt"
	"os"
	"runtime/pprof"
	"strings"
	"time"
)

func main() {
	// go/packages resolves "go" through this process's PATH: use the cached toolchain the repo needs, offline.
	os.Setenv("PATH", goToolchainBin+":"+os.Getenv("PATH"))
	os.Setenv("GOTOOLCHAIN", "local")
	os.Setenv("GOFLAGS", "-mod=mod")
	os.Setenv("GOPROXY", "off")
	os.Setenv("GOSUMDB", "off")
	if pf := os.Getenv("GOVC_PROF"); pf != "" {
		if f, err := os.Create(pf); err == nil {
			pprof.StartCPUProfile(f)
			go func() {
				time.Sleep(60 * time.Second)
				pprof.StopCPUProfile()
				f.Close()
			}()
		}
	}
	if len(os.Args) < 2 {
		fmt.Fprintln(os.Stderr, "usage: govc dump <pkgs,comma> <funckey> | check <prop> <tier> | replay <file>")
		os.Exit(2)
	}
	switch os.Args[1] {
	case "dump":
		t0 := time.Now()
		P, err := loadProgram(strings.Split(os.Args[2], ","))
		if err != nil {
			fmt.Fprintln(os.Stderr, err)
			os.Exit(2)
		}
		fmt.Fprintf(os.Stderr, "loaded in %v\n", time.Since(t0))
		if len(os.Args) < 4 {
			for _, k := range P.sortedFuncKeys() {
				fmt.Println(k)
			}
			return
		}
		f := P.funcs[os.Args[3]]
		if f == nil {
			fmt.Fprintln(os.Stderr, "no such function")
			os.Exit(2)
		}
		f.WriteTo(os.Stdout)
	default:
		os.Exit(mainCheck(os.Args[1:]))
	}
}
