package main

import (
	"fmt"
	"go/types"
	"sort"
	"strings"

	"golang.org/x/tools/go/ssa"
)

// State is the symbolic state at a program point (passive form; terms are immutable).
type State struct {
	cells  map[*ssa.Alloc]*Val
	heap   map[string]*Term
	ghost  map[string]*Val
	reach  *Term
	defers []*deferred
	iters  map[*ssa.Range]*iterData
	snap   *State // snapshot that old() refers to (entry, or last lock acquisition)
	dead   bool
}

type deferred struct {
	instr *ssa.Defer
	args  []*Val
	fnVal *Val
}

type iterData struct {
	mapRef  *Term
	visited *Term // (Array K Bool)
	dom0    *Term // dom of the map at range start (Array K Bool)
	mt      *types.Map
	isStr   bool
}

func (s *State) clone() *State {
	n := &State{cells: make(map[*ssa.Alloc]*Val, len(s.cells)), heap: make(map[string]*Term, len(s.heap)),
		ghost: make(map[string]*Val, len(s.ghost)), reach: s.reach, iters: make(map[*ssa.Range]*iterData, len(s.iters)), snap: s.snap, dead: s.dead}
	for k, v := range s.cells {
		n.cells[k] = v
	}
	for k, v := range s.heap {
		n.heap[k] = v
	}
	for k, v := range s.ghost {
		n.ghost[k] = v
	}
	for k, v := range s.iters {
		c := *v
		n.iters[k] = &c
	}
	n.defers = append([]*deferred(nil), s.defers...)
	return n
}

// ---- heap access ----

// heapGet returns the current array term for key, creating the initial symbol lazily.
func (x *Exec) heapGet(st *State, key string, s Sort) *Term {
	if t, ok := st.heap[key]; ok {
		return t
	}
	if t, ok := x.initHeap[key]; ok {
		return t
	}
	t := x.D.declareConst("H."+sanitize(key)+"@0", s)
	x.initHeap[key] = t
	x.heapSort[key] = s
	x.nilMapFact(key, t)
	return t
}

func (x *Exec) heapSet(st *State, key string, t *Term) {
	if _, ok := x.heapSort[key]; !ok {
		x.heapSort[key] = t.S
	}
	if key != allocKey && !x.freshOnlyWrite(st, key, t) {
		x.dirty[key] = true
	}
	if t.dep > 24 {
		// long chains of updates (big composite literals): name the intermediate heap so that terms stay small
		c := x.D.fresh("H."+key+".n", t.S)
		x.asserts = append(x.asserts, tEq(c, t))
		t = c
	}
	st.heap[key] = t
}

func fieldKey(structT types.Type, leaf string) string {
	return "F|" + typeKey(structT) + "|" + leaf
}
func ptrKey(t types.Type, leaf string) string { return "P|" + typeKey(t) + "|" + leaf }
func sliceKey(elemT types.Type, leaf string) string {
	return "S|" + typeKey(elemT) + "|" + leaf
}
func mapDomKey(mt *types.Map) string {
	return "M|" + typeKey(mt.Key()) + "|" + typeKey(mt.Elem()) + "|dom"
}
func mapValKey(mt *types.Map, leaf string) string {
	return "M|" + typeKey(mt.Key()) + "|" + typeKey(mt.Elem()) + "|val|" + leaf
}
func mapLenKey(mt *types.Map) string {
	return "M|" + typeKey(mt.Key()) + "|" + typeKey(mt.Elem()) + "|len"
}

const allocKey = "$alloc"

// objKey returns the heap key for leaf `leaf` of an object of type t addressed by a pointer.
func objKey(t types.Type, leaf string) string {
	if k, _ := classify(t); k == TStruct {
		return fieldKey(t, leaf)
	}
	return ptrKey(t, leaf)
}

// loadObj reads the sub-value (type subT at leaf prefix) of the object ref:*objT.
func (x *Exec) loadObj(st *State, ref *Term, objT types.Type, prefix string, subT types.Type) *Val {
	return buildVal(subT, prefix, func(path string, s Sort, _ types.Type) *Term {
		return tSelect(x.heapGet(st, objKey(objT, path), arr(SInt, s)), ref)
	})
}

func (x *Exec) storeObj(st *State, ref *Term, objT types.Type, prefix string, subT types.Type, v *Val) {
	walkLeaves(v, subT, prefix, func(path string, term *Term) {
		key := objKey(objT, path)
		a := x.heapGet(st, key, arr(SInt, term.S))
		x.heapSet(st, key, tStore(a, ref, term))
	})
}

func (x *Exec) loadElem(st *State, arrRef, idx *Term, elemT types.Type, prefix string, subT types.Type) *Val {
	return buildVal(subT, prefix, func(path string, s Sort, _ types.Type) *Term {
		h := x.heapGet(st, sliceKey(elemT, path), arr(SInt, arr(SInt, s)))
		return tSelect(tSelect(h, arrRef), idx)
	})
}

func (x *Exec) storeElem(st *State, arrRef, idx *Term, elemT types.Type, prefix string, subT types.Type, v *Val) {
	walkLeaves(v, subT, prefix, func(path string, term *Term) {
		key := sliceKey(elemT, path)
		h := x.heapGet(st, key, arr(SInt, arr(SInt, term.S)))
		x.heapSet(st, key, tStore(h, arrRef, tStore(tSelect(h, arrRef), idx, term)))
	})
}

func (x *Exec) mapDom(st *State, mt *types.Map, m *Term) *Term {
	ks, _ := sortOfKey(mt.Key())
	return tSelect(x.heapGet(st, mapDomKey(mt), arr(SInt, arr(ks, SBool))), m)
}

func (x *Exec) mapHas(st *State, mt *types.Map, m, k *Term) *Term {
	return tSelect(x.mapDom(st, mt, m), k)
}

func (x *Exec) mapLen(st *State, mt *types.Map, m *Term) *Term {
	return tSelect(x.heapGet(st, mapLenKey(mt), arr(SInt, SInt)), m)
}

func (x *Exec) mapGet(st *State, mt *types.Map, m, k *Term) *Val {
	ks, _ := sortOfKey(mt.Key())
	return buildVal(mt.Elem(), "", func(path string, s Sort, _ types.Type) *Term {
		h := x.heapGet(st, mapValKey(mt, path), arr(SInt, arr(ks, s)))
		return tSelect(tSelect(h, m), k)
	})
}

// havocAbstractMap forgets the contents of every map of an abstracted type.
func (x *Exec) havocAbstractMap(st *State, mt *types.Map) {
	for _, key := range mapKeys(mt) {
		if s, ok := x.heapSort[key]; ok {
			x.dirty[key] = true
			st.heap[key] = x.D.fresh("H."+key+".abs", s)
		}
	}
}

func (x *Exec) mapPut(st *State, mt *types.Map, m, k *Term, v *Val) {
	ks, _ := sortOfKey(mt.Key())
	dk := mapDomKey(mt)
	if x.absMaps[dk] {
		x.havocAbstractMap(st, mt)
		return
	}
	dh := x.heapGet(st, dk, arr(SInt, arr(ks, SBool)))
	had := tSelect(tSelect(dh, m), k)
	x.heapSet(st, dk, tStore(dh, m, tStore(tSelect(dh, m), k, tTrue)))
	lk := mapLenKey(mt)
	lh := x.heapGet(st, lk, arr(SInt, SInt))
	x.heapSet(st, lk, tStore(lh, m, tIte(had, tSelect(lh, m), tArith("+", tSelect(lh, m), intLit(1)))))
	walkLeaves(v, mt.Elem(), "", func(path string, term *Term) {
		key := mapValKey(mt, path)
		h := x.heapGet(st, key, arr(SInt, arr(ks, term.S)))
		x.heapSet(st, key, tStore(h, m, tStore(tSelect(h, m), k, term)))
	})
}

func (x *Exec) mapDelete(st *State, mt *types.Map, m, k *Term) {
	ks, _ := sortOfKey(mt.Key())
	dk := mapDomKey(mt)
	if x.absMaps[dk] {
		x.havocAbstractMap(st, mt)
		return
	}
	dh := x.heapGet(st, dk, arr(SInt, arr(ks, SBool)))
	had := tSelect(tSelect(dh, m), k)
	x.heapSet(st, dk, tStore(dh, m, tStore(tSelect(dh, m), k, tFalse)))
	lk := mapLenKey(mt)
	lh := x.heapGet(st, lk, arr(SInt, SInt))
	x.heapSet(st, lk, tStore(lh, m, tIte(had, tArith("-", tSelect(lh, m), intLit(1)), tSelect(lh, m))))
	// values outside dom read as zero
	z := zeroVal(mt.Elem())
	walkLeaves(z, mt.Elem(), "", func(path string, term *Term) {
		key := mapValKey(mt, path)
		h := x.heapGet(st, key, arr(SInt, arr(ks, term.S)))
		x.heapSet(st, key, tStore(h, m, tStore(tSelect(h, m), k, term)))
	})
}

// newRef allocates a fresh reference distinct from everything allocated so far.
func (x *Exec) newRef(st *State, hint string) *Term {
	r := x.D.fresh("ref."+hint, SInt)
	al := x.heapGet(st, allocKey, arr(SInt, SBool))
	x.assume(st, tAnd(tCmp(">", r, intLit(0)), tNot(tSelect(al, r))))
	x.heapSet(st, allocKey, tStore(al, r, tTrue))
	x.usesAlloc = true
	return r
}

// ---- merging ----

type inEdge struct {
	st   *State
	cond *Term // full reach condition of the edge
}

func (x *Exec) mergeTerm(hint string, edges []inEdge, get func(*State) *Term) *Term {
	first := get(edges[0].st)
	same := true
	for _, e := range edges[1:] {
		t := get(e.st)
		if t != first && t.String() != first.String() {
			same = false
			break
		}
	}
	if same {
		return first
	}
	j := x.D.fresh("j."+hint, first.S)
	for _, e := range edges {
		x.asserts = append(x.asserts, tImp(e.cond, tEq(j, get(e.st))))
	}
	return j
}

func (x *Exec) mergeVal(hint string, edges []inEdge, get func(*State) *Val) (*Val, error) {
	first := get(edges[0].st)
	if first == nil {
		return nil, nil
	}
	allSame := true
	for _, e := range edges[1:] {
		if get(e.st) != first {
			allSame = false
		}
	}
	if allSame {
		return first, nil
	}
	switch first.K {
	case VScalar:
		for _, e := range edges {
			v := get(e.st)
			if v == nil || v.K != VScalar {
				return nil, fmt.Errorf("merge of non-uniform values for %s", hint)
			}
		}
		return &Val{K: VScalar, Typ: first.Typ, SetOf: first.SetOf, T: x.mergeTerm(hint, edges, func(s *State) *Term { return get(s).T })}, nil
	case VUnit:
		return first, nil
	case VStruct, VTuple, VSlice, VFloat:
		out := &Val{K: first.K, Typ: first.Typ}
		for i := range first.F {
			i := i
			for _, e := range edges {
				v := get(e.st)
				if v == nil || v.K != first.K || len(v.F) != len(first.F) {
					return nil, fmt.Errorf("merge of non-uniform values for %s", hint)
				}
			}
			f, err := x.mergeVal(fmt.Sprintf("%s.%d", hint, i), edges, func(s *State) *Val { return get(s).F[i] })
			if err != nil {
				return nil, err
			}
			out.F = append(out.F, f)
		}
		return out, nil
	case VPath, VClosure, VIter:
		// must be identical objects on all edges
		for _, e := range edges[1:] {
			v := get(e.st)
			if v == nil || v.K != first.K {
				return nil, fmt.Errorf("merge of differing executor-level values for %s", hint)
			}
			if first.K == VClosure && v.Clo.Fn != first.Clo.Fn {
				return nil, fmt.Errorf("merge of differing closures for %s", hint)
			}
			if first.K == VPath && !samePath(first.Path, v.Path) {
				return nil, fmt.Errorf("merge of differing addresses for %s", hint)
			}
		}
		return first, nil
	}
	return nil, fmt.Errorf("mergeVal: unknown kind")
}

func samePath(a, b *Path) bool {
	if a.Cell != b.Cell || a.Global != b.Global || len(a.Sel) != len(b.Sel) {
		return false
	}
	for i := range a.Sel {
		if a.Sel[i] != b.Sel[i] {
			return false
		}
	}
	ts := func(t *Term) string {
		if t == nil {
			return ""
		}
		return t.String()
	}
	return ts(a.Ref) == ts(b.Ref) && ts(a.Arr) == ts(b.Arr) && ts(a.Idx) == ts(b.Idx)
}

// mergeStates joins the states of incoming edges into one state.
func (x *Exec) mergeStates(hint string, edges []inEdge) (*State, error) {
	if len(edges) == 1 {
		s := edges[0].st.clone()
		s.reach = edges[0].cond
		return s, nil
	}
	out := &State{cells: map[*ssa.Alloc]*Val{}, heap: map[string]*Term{}, ghost: map[string]*Val{}, iters: map[*ssa.Range]*iterData{}}
	var conds []*Term
	for _, e := range edges {
		conds = append(conds, e.cond)
	}
	rc := tOr(conds...)
	if len(rc.Args) > 0 {
		r := x.D.fresh("reach."+hint, SBool)
		x.asserts = append(x.asserts, tEq(r, rc))
		rc = r
	}
	out.reach = rc
	// cells: union of keys; a cell missing on an edge is not live there (dominance), take from others
	cellKeys := map[*ssa.Alloc]bool{}
	for _, e := range edges {
		for k := range e.st.cells {
			cellKeys[k] = true
		}
	}
	var cks []*ssa.Alloc
	for k := range cellKeys {
		cks = append(cks, k)
	}
	sort.Slice(cks, func(i, j int) bool { return cks[i].Pos() < cks[j].Pos() || (cks[i].Pos() == cks[j].Pos() && cks[i].Name() < cks[j].Name()) })
	for _, k := range cks {
		var have []inEdge
		for _, e := range edges {
			if _, ok := e.st.cells[k]; ok {
				have = append(have, e)
			}
		}
		if len(have) != len(edges) {
			// not defined on all paths: cannot be live at the join by dominance unless re-allocated; keep first
			out.cells[k] = have[0].st.cells[k]
			continue
		}
		v, err := x.mergeVal("c."+k.Comment, edges, func(s *State) *Val { return s.cells[k] })
		if err != nil {
			return nil, err
		}
		out.cells[k] = v
	}
	heapKeys := map[string]bool{}
	for _, e := range edges {
		for k := range e.st.heap {
			heapKeys[k] = true
		}
	}
	for _, k := range sortedKeys(heapKeys) {
		k := k
		out.heap[k] = x.mergeTerm("h."+k, edges, func(s *State) *Term { return x.heapGet(s, k, x.heapSort[k]) })
	}
	ghostKeys := map[string]bool{}
	for _, e := range edges {
		for k := range e.st.ghost {
			ghostKeys[k] = true
		}
	}
	for _, k := range sortedKeys(ghostKeys) {
		k := k
		var have []inEdge
		for _, e := range edges {
			if _, has := e.st.ghost[k]; has {
				have = append(have, e)
			}
		}
		if len(have) == len(edges) {
			v, err := x.mergeVal("g."+k, edges, func(s *State) *Val { return s.ghost[k] })
			if err != nil {
				return nil, err
			}
			out.ghost[k] = v
			continue
		}
		// defined on some paths only (loop ghosts of a loop that an early exit skipped): arbitrary on the others
		first := have[0].st.ghost[k]
		if !isSMTVal(first) {
			continue
		}
		merged := x.havocLike(first, "g."+k)
		for _, e := range have {
			x.asserts = append(x.asserts, tImp(e.cond, valEqRaw(merged, e.st.ghost[k])))
		}
		out.ghost[k] = merged
	}
	// iterators
	for _, e := range edges {
		for k := range e.st.iters {
			if _, done := out.iters[k]; done {
				continue
			}
			all := true
			for _, e2 := range edges {
				if _, ok := e2.st.iters[k]; !ok {
					all = false
				}
			}
			if !all {
				continue
			}
			k := k
			d := *e.st.iters[k]
			d.visited = x.mergeTerm("it.vis", edges, func(s *State) *Term { return s.iters[k].visited })
			d.dom0 = x.mergeTerm("it.dom0", edges, func(s *State) *Term { return s.iters[k].dom0 })
			d.mapRef = x.mergeTerm("it.ref", edges, func(s *State) *Term { return s.iters[k].mapRef })
			out.iters[k] = &d
		}
	}
	// defers must agree
	out.defers = edges[0].st.defers
	for _, e := range edges[1:] {
		if x.mergingSnap {
			break
		}
		if len(e.st.defers) != len(out.defers) {
			return nil, fmt.Errorf("join with differing defer stacks at %s", hint)
		}
		for i := range out.defers {
			if e.st.defers[i].instr != out.defers[i].instr {
				return nil, fmt.Errorf("join with differing defer stacks at %s", hint)
			}
		}
	}
	// snapshot: must agree (pointer) or merge
	snapOf := func(st *State) *State {
		if st.snap != nil {
			return st.snap
		}
		return x.entry
	}
	out.snap = snapOf(edges[0].st)
	if !x.mergingSnap {
		for _, e := range edges[1:] {
			if snapOf(e.st) != out.snap {
				var sedges []inEdge
				for _, e2 := range edges {
					sedges = append(sedges, inEdge{snapOf(e2.st), e2.cond})
				}
				x.mergingSnap = true
				ms, err := x.mergeStates(hint+".snap", sedges)
				x.mergingSnap = false
				if err != nil {
					return nil, err
				}
				ms.snap = nil
				out.snap = ms
				break
			}
		}
	}
	return out, nil
}


// nilMapFact: in every version of a map-domain heap the nil map (reference 0) has an empty domain.
func (x *Exec) nilMapFact(key string, h *Term) {
	if !strings.HasPrefix(key, "M|") || !strings.HasSuffix(key, "|dom") {
		return
	}
	_, inner, ok := arrParts(h.S)
	if !ok {
		return
	}
	x.asserts = append(x.asserts, tEq(tSelect(h, intLit(0)), constArr(inner, tFalse)))
}

// freshOnlyWrite: the new heap value is the current one updated only at objects allocated by this function
// (newRef constants). While every write under a key is of that kind, the key's frame condition holds by construction.
func (x *Exec) freshOnlyWrite(st *State, key string, t *Term) bool {
	cur, ok := st.heap[key]
	for t.Op == "store" && len(t.Args) == 3 && len(t.Args[1].Args) == 0 && strings.HasPrefix(t.Args[1].Op, "ref.") {
		t = t.Args[0]
		if ok && t == cur {
			return true
		}
	}
	if !ok {
		// first materialisation: the base must be the initial heap symbol of this key
		return len(t.Args) == 0 && strings.HasPrefix(t.Op, "H.") && strings.HasSuffix(t.Op, "@0")
	}
	return t == cur || t.String() == cur.String()
}
