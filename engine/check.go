package main

import (
	"bytes"
	"context"
	"bufio"
	"encoding/json"
	"fmt"
	"os"
	"os/exec"
	"path/filepath"
	"sort"

	"golang.org/x/tools/go/ssa"
	"strconv"
	"strings"
	"time"
)

const verifDir = "/verif"

type suiteFunc struct {
	Key    string
	Only   []string
	Except []string
}

type Suite struct {
	ID         string
	Packages   []string
	Funcs      []suiteFunc
	Lemmas     []string
	MinObls    int
	Unverified []string
	Callers    []callersRule
	BTests     []boundedTest
	Assumes    []string
	Bounded    []string
}

func loadSuite(id string) (*Suite, error) {
	path := filepath.Join(verifDir, "suites", id+".suite")
	f, err := os.Open(path)
	if err != nil {
		return nil, err
	}
	defer f.Close()
	s := &Suite{ID: id}
	sc := bufio.NewScanner(f)
	for sc.Scan() {
		line := strings.TrimSpace(sc.Text())
		if line == "" || strings.HasPrefix(line, "#") {
			continue
		}
		w, rest := splitWord(line)
		switch w {
		case "packages":
			s.Packages = append(s.Packages, strings.Fields(rest)...)
		case "min_obligations":
			s.MinObls, _ = strconv.Atoi(rest)
		case "func":
			parts := strings.Fields(rest)
			sf := suiteFunc{Key: parts[0]}
			mode := ""
			for _, p := range parts[1:] {
				switch p {
				case "only", "except":
					mode = p
				default:
					if mode == "only" {
						sf.Only = append(sf.Only, p)
					} else if mode == "except" {
						sf.Except = append(sf.Except, p)
					}
				}
			}
			s.Funcs = append(s.Funcs, sf)
		case "lemma":
			s.Lemmas = append(s.Lemmas, strings.Fields(rest)...)
		case "unverified":
			s.Unverified = append(s.Unverified, rest)
		case "boundedtest":
			// boundedtest [label] <pkg-dir> <file under /verif/bounded> <TestName> :: <what it covers and its bound>
			desc := ""
			if i := strings.Index(rest, "::"); i >= 0 {
				desc = strings.TrimSpace(rest[i+2:])
				rest = rest[:i]
			}
			parts := strings.Fields(rest)
			if len(parts) != 4 || !strings.HasPrefix(parts[0], "[") {
				return nil, fmt.Errorf("%s: boundedtest [label] <pkg-dir> <file> <TestName> :: <description>", line)
			}
			s.BTests = append(s.BTests, boundedTest{Label: strings.Trim(parts[0], "[]"), PkgDir: parts[1], File: parts[2], Test: parts[3], Desc: desc})
		case "callers":
			// callers [label] <pkg> <callee-glob> only <func-glob>...
			parts := strings.Fields(rest)
			cr := callersRule{}
			if len(parts) > 0 && strings.HasPrefix(parts[0], "[") {
				cr.Label = strings.Trim(parts[0], "[]")
				parts = parts[1:]
			}
			if len(parts) < 3 || parts[2] != "only" {
				return nil, fmt.Errorf("%s: callers [label] <pkg> <callee-glob> only <func-glob>...", line)
			}
			cr.Pkg, cr.Callee, cr.Allowed = parts[0], parts[1], parts[3:]
			s.Callers = append(s.Callers, cr)
		case "assume":
			s.Assumes = append(s.Assumes, rest)
		case "bounded":
			s.Bounded = append(s.Bounded, rest)
		default:
			return nil, fmt.Errorf("%s: unknown directive %q", path, w)
		}
	}
	return s, nil
}

// boundedTest is a bounded stand-in: an exhaustive run of the real code over a stated finite domain. It is reported
// under `bounded` in the evidence and never counted as a discharged obligation.
type boundedTest struct {
	Label, PkgDir, File, Test, Desc string
}

func runBoundedTest(bt boundedTest) (bool, string) {
	src := filepath.Join(verifDir, "bounded", bt.File)
	tmp, err := os.MkdirTemp("", "govc-bounded-")
	if err != nil {
		return false, err.Error()
	}
	defer os.RemoveAll(tmp)
	ov := map[string]any{"Replace": map[string]string{filepath.Join(repoDir, bt.PkgDir, "zz_govc_bounded_test.go"): src}}
	data, _ := json.Marshal(ov)
	of := filepath.Join(tmp, "overlay.json")
	os.WriteFile(of, data, 0o644)
	ctx, cancel := context.WithTimeout(context.Background(), 240*time.Second)
	defer cancel()
	cmd := exec.CommandContext(ctx, "go", "test", "-overlay", of, "-vet=off", "-count=1", "-v", "-timeout", "120s", "-run", "^"+bt.Test+"$", "./"+bt.PkgDir)
	cmd.Dir = repoDir
	cmd.Env = goEnv()
	var out bytes.Buffer
	cmd.Stdout = &out
	cmd.Stderr = &out
	runErr := cmd.Run()
	text := out.String()
	ok := runErr == nil && strings.Contains(text, "--- PASS: "+bt.Test) && strings.Contains(text, "GOVC-BOUNDED")
	return ok, text
}

// callersRule is a frame condition on the call graph of one package: every reference to a function matching
// Callee (call, go, defer or function value) inside package Pkg sits in a function matching one of Allowed.
type callersRule struct {
	Label, Pkg, Callee string
	Allowed            []string
}

// checkCallers scans the SSA of every function of the package. It returns the number of references found and
// the offending ones.
func checkCallers(P *Program, cr callersRule) (int, []string) {
	var bad []string
	n := 0
	keys := []string{}
	for k := range P.funcs {
		if strings.HasPrefix(k, cr.Pkg+".") {
			keys = append(keys, k)
		}
	}
	sort.Strings(keys)
	for _, k := range keys {
		f := P.funcs[k]
		top := k
		if i := strings.Index(top, "$"); i >= 0 {
			top = top[:i]
		}
		for _, b := range f.Blocks {
			for _, ins := range b.Instrs {
				var ops []*ssa.Value
				for _, op := range ins.Operands(ops) {
					if op == nil || *op == nil {
						continue
					}
					fn, ok := (*op).(*ssa.Function)
					if !ok {
						continue
					}
					ck := P.funcKey(fn)
					if ck == "" || !globKey(cr.Callee, ck) {
						continue
					}
					n++
					ok = false
					for _, a := range cr.Allowed {
						if globKey(a, top) {
							ok = true
						}
					}
					if !ok {
						bad = append(bad, fmt.Sprintf("%s references %s at %s", k, ck, P.SSA.Fset.Position(ins.Pos())))
					}
				}
			}
		}
	}
	return n, bad
}

func globMatch(pat, s string) bool {
	ok, _ := filepath.Match(pat, s)
	return ok
}

func (sf *suiteFunc) selects(o *Obligation) bool {
	id := o.Name[strings.Index(o.Name, "#")+1:]
	for _, e := range sf.Except {
		if globMatch(e, id) {
			return false
		}
	}
	if len(sf.Only) == 0 {
		return true
	}
	// postconditions are proved assuming the loop invariants: their establishment and preservation
	// always belong to the same check
	if strings.HasPrefix(o.Kind, "loop") {
		return true
	}
	for _, p := range sf.Only {
		if globMatch(p, id) {
			return true
		}
	}
	return false
}

func loadAllContracts(P *Program) (*Contracts, error) {
	C := newContracts()
	specs, _ := filepath.Glob(filepath.Join(verifDir, "specs", "*.spec"))
	sort.Strings(specs)
	for _, sp := range specs {
		if err := C.loadContractFile(sp, "*"); err != nil {
			return nil, err
		}
	}
	var names []string
	for n := range P.Pkgs {
		names = append(names, n)
	}
	sort.Strings(names)
	for _, n := range names {
		path := filepath.Join(repoDir, "internal", n, "verif_contracts.go")
		if _, err := os.Stat(path); err == nil {
			if err := C.loadContractFile(path, n); err != nil {
				return nil, err
			}
		}
	}
	return C, nil
}

// runFunc executes one function to a fixpoint of materialised heap keys.
func runFunc(P *Program, C *Contracts, key string) (*Exec, error) {
	var known map[string]Sort
	for pass := 0; pass < 6; pass++ {
		x, err := newExec(P, C, key)
		if err != nil {
			return nil, err
		}
		for k, s := range known {
			x.heapSort[k] = s
		}
		if err := x.run(); err != nil {
			return x, err
		}
		if len(x.errs) > 0 {
			return x, fmt.Errorf("%s", strings.Join(x.errs, "; "))
		}
		if len(x.heapSort) == len(known) {
			return x, nil
		}
		known = x.heapSort
	}
	return nil, fmt.Errorf("heap key set did not stabilise for %s", key)
}

type finding struct {
	kind, property, obligation, witness, text string
}

func loadFindings() []finding {
	var out []finding
	data, err := os.ReadFile(filepath.Join(verifDir, "known-findings.txt"))
	if err != nil {
		return nil
	}
	for _, line := range strings.Split(string(data), "\n") {
		line = strings.TrimSpace(line)
		if line == "" || strings.HasPrefix(line, "#") {
			continue
		}
		var f finding
		switch {
		case strings.HasPrefix(line, "finding:"):
			f.kind = "finding"
			line = strings.TrimSpace(line[len("finding:"):])
		case strings.HasPrefix(line, "fixed:"):
			f.kind = "fixed"
			line = strings.TrimSpace(line[len("fixed:"):])
		default:
			continue
		}
		rest := []string{}
		for _, tok := range strings.Fields(line) {
			switch {
			case strings.HasPrefix(tok, "property="):
				f.property = tok[len("property="):]
			case strings.HasPrefix(tok, "obligation="):
				f.obligation = tok[len("obligation="):]
			case strings.HasPrefix(tok, "witness="):
				f.witness = tok[len("witness="):]
			default:
				rest = append(rest, tok)
			}
		}
		f.text = strings.Join(rest, " ")
		out = append(out, f)
	}
	return out
}

type evidenceObl struct {
	Name   string `json:"name"`
	Result string `json:"result"`
	Solver string `json:"solver,omitempty"`
	Millis int64  `json:"ms"`
	Where  string `json:"where,omitempty"`
	Clause string `json:"clause,omitempty"`
	SMT    string `json:"smt,omitempty"`
	Bytes  int    `json:"query_bytes,omitempty"`
}

func mainCheck(args []string) int {
	if len(args) < 2 || args[0] != "check" {
		if len(args) >= 1 && args[0] == "replay" {
			return mainReplay(args[1:])
		}
		if len(args) >= 1 && args[0] == "vc" {
			return mainVC(args[1:])
		}
		fmt.Fprintln(os.Stderr, "usage: govc check <prop> [quick|thorough]")
		return 2
	}
	id := args[1]
	tier := "quick"
	if len(args) > 2 {
		tier = args[2]
	}
	if t := os.Getenv("VERIF_TIER"); t != "" && len(args) <= 2 {
		tier = t
	}
	seed := 0
	if s := os.Getenv("VERIF_SEED"); s != "" {
		seed, _ = strconv.Atoi(s)
	}
	t0 := time.Now()
	engineErr := func(format string, a ...any) int {
		fmt.Printf("ENGINE-ERROR property=%s %s\n", id, fmt.Sprintf(format, a...))
		return 2
	}
	suite, err := loadSuite(id)
	if err != nil {
		return engineErr("suite: %v", err)
	}
	P, err := loadProgram(suite.Packages)
	if err != nil {
		// the working tree does not compile: nothing can be regenerated
		fmt.Printf("ENGINE-ERROR property=%s cannot load /repo: %v\n", id, err)
		return 2
	}
	C, err := loadAllContracts(P)
	if err != nil {
		return engineErr("contracts: %v", err)
	}
	outRoot, evDir := filepath.Join(verifDir, "out"), filepath.Join(verifDir, "evidence")
	if sc := os.Getenv("GOVC_SCRATCH"); sc != "" {
		// self-test runs: never touch the committed evidence or the main out directory
		outRoot, evDir = filepath.Join(sc, "out"), filepath.Join(sc, "evidence")
	}
	outDir := filepath.Join(outRoot, id)
	os.RemoveAll(outDir)
	os.MkdirAll(outDir, 0o755)

	var items []*oblItem
	var notRegen []*Obligation
	funcsUnder := []string{}
	trusted := map[string]bool{}
	unknown := map[string]bool{}
	assumptions := map[string]bool{}
	dropped := map[string]bool{}
	axioms := map[string]bool{}
	pureExt := map[string]bool{}
	skipped := map[string]bool{}
	for _, sf := range suite.Funcs {
		if _, ok := C.Funcs[sf.Key]; !ok {
			return engineErr("suite names %s but no contract block exists for it", sf.Key)
		}
		x, err := runFunc(P, C, sf.Key)
		if err != nil {
			o := &Obligation{Name: sf.Key + "#not-regenerable", Kind: "not-regenerable", Func: sf.Key, Result: "not-regenerable", Output: err.Error()}
			notRegen = append(notRegen, o)
			continue
		}
		funcsUnder = append(funcsUnder, sf.Key)
		n := 0
		for _, o := range x.obls {
			if sf.selects(o) {
				items = append(items, &oblItem{o: o, x: x})
				n++
			}
		}
		// selected patterns must match something: a label that disappeared is not a pass
		for _, p := range sf.Only {
			hit := false
			for _, o := range x.obls {
				if globMatch(p, o.Name[strings.Index(o.Name, "#")+1:]) {
					hit = true
				}
			}
			if !hit {
				notRegen = append(notRegen, &Obligation{Name: sf.Key + "#" + p, Kind: "not-regenerable", Func: sf.Key, Result: "not-regenerable", Output: "suite pattern " + p + " matched no generated obligation"})
			}
		}
		for k := range x.trusted {
			trusted[k] = true
		}
		for k := range x.unknown {
			unknown[k] = true
		}
		for k := range x.assumptions {
			assumptions[k] = true
		}
		for k := range x.dropped {
			dropped[k] = true
		}
		for k := range x.axiomsUsed {
			axioms[k] = true
		}
		for k := range x.pureExt {
			pureExt[k] = true
		}
		for k := range x.skippedEnsures {
			skipped[k] = true
		}
		for k := range x.detExt {
			trusted["deterministic external function (uninterpreted): "+k] = true
		}
		for k := range x.globalsRead {
			assumptions["package-level variable "+k+" treated as an unconstrained constant"] = true
		}
		// vacuity: the background of the function must be satisfiable at some exit
		if x.exit != nil {
			cov := &Obligation{Name: sf.Key + "#cover:exit-reachable", Kind: "cover", Func: sf.Key, Prefix: len(x.asserts), Reach: x.exit.reach, Goal: tTrue, Cover: true, Src: "requires, invariants and assumed callee contracts are jointly satisfiable on some path to a return"}
			items = append(items, &oblItem{o: cov, x: x})
		}
	}
	for _, ln := range suite.Lemmas {
		x, o, err := lemmaObligation(P, C, ln)
		if err != nil {
			notRegen = append(notRegen, &Obligation{Name: "lemma#" + ln, Kind: "not-regenerable", Result: "not-regenerable", Output: err.Error()})
			continue
		}
		items = append(items, &oblItem{o: o, x: x})
		for k := range x.axiomsUsed {
			axioms[k] = true
		}
	}
	var callerObls []*Obligation
	for _, cr := range suite.Callers {
		n, bad := checkCallers(P, cr)
		o := &Obligation{Name: cr.Pkg + ".*#callers:" + cr.Label, Kind: "callers", Label: cr.Label, Result: "unsat", Solver: "ssa-reference-scan",
			Src: fmt.Sprintf("every reference to %s in package %s is inside %s (%d references found)", cr.Callee, cr.Pkg, strings.Join(cr.Allowed, ", "), n)}
		if len(bad) > 0 {
			o.Result, o.Output = "violated", strings.Join(bad, "\n")
		} else if n == 0 && !(len(cr.Allowed) == 1 && cr.Allowed[0] == "-") {
			o.Result, o.Output = "not-regenerable", "no reference to "+cr.Callee+" found in package "+cr.Pkg+": the rule is vacuous"
		}
		callerObls = append(callerObls, o)
	}
	opts := solveOpts{timeoutS: 10, seed: seed}
	if tier == "thorough" {
		opts.timeoutS = 60
		opts.all = true
	}
	solveAll(items, outDir, opts, 6)

	findings := loadFindings()
	var evObls []evidenceObl
	discharged := 0
	total := 0
	violations := 0
	var solverMs int64
	covers := 0
	exit := 0
	var vioLines []string
	var knownHit []string
	replays := map[*Obligation]*replayOutcome{}
	report := func(o *Obligation, reason string) {
		// known finding?
		for _, f := range findings {
			if f.kind == "finding" && f.property == id && f.obligation == o.Name {
				fmt.Printf("KNOWN-FINDING: property=%s %s — %s\n", id, o.Name, f.text)
				knownHit = append(knownHit, o.Name)
				total-- // a recorded finding is not part of the proved set
				return
			}
		}
		violations++
		rp := filepath.Join(outDir, "replay-"+sanitizeFile(o.Name)+".json")
		rec := map[string]any{"property": id, "obligation": o.Name, "kind": o.Kind, "where": o.Where, "clause": o.Src, "result": o.Result,
			"reason": reason, "solver_output": o.Output, "smt_file": o.SMTFile, "failing_input": nil}
		suffix := "no-failing-input-found"
		if ro := replays[o]; ro != nil {
			rec["replay"] = ro
			if ro.Reproduced {
				rec["failing_input"] = map[string]any{"call": ro.Call, "args": ro.Args, "observed_on_real_code": ro.Observed}
				suffix = "failing-input-replayed-on-real-code call=" + strings.ReplaceAll(ro.Call, " ", "")
			}
		}
		data, _ := json.MarshalIndent(rec, "", " ")
		os.WriteFile(rp, data, 0o644)
		vioLines = append(vioLines, fmt.Sprintf("VIOLATION property=%s replay=%s obligation=%s result=%s %s", id, rp, o.Name, o.Result, suffix))
		exit = 1
	}
	for _, o := range notRegen {
		total++
		evObls = append(evObls, evidenceObl{Name: o.Name, Result: o.Result, Clause: o.Output})
		report(o, "not-regenerable: "+o.Output)
	}
	var boundedEv []any
	for _, bt := range suite.BTests {
		ok, text := runBoundedTest(bt)
		res := "pass"
		if !ok {
			res = "fail"
		}
		cases := ""
		for _, l := range strings.Split(text, "\n") {
			if strings.HasPrefix(l, "GOVC-BOUNDED") {
				cases = strings.TrimSpace(strings.TrimPrefix(l, "GOVC-BOUNDED"))
			}
		}
		boundedEv = append(boundedEv, map[string]any{"label": bt.Label, "result": res, "covers": bt.Desc, "explored": cases,
			"cmd": "go test -overlay <" + bt.File + " into " + bt.PkgDir + "> -run ^" + bt.Test + "$ ./" + bt.PkgDir, "counted_as_proved": false})
		if !ok {
			o := &Obligation{Name: "bounded:" + bt.Label, Kind: "bounded", Label: bt.Label, Result: "fail", Output: trunc(text, 6000), Src: bt.Desc}
			violations++
			rp := filepath.Join(outDir, "replay-"+sanitizeFile(o.Name)+".json")
			rec := map[string]any{"property": id, "obligation": o.Name, "kind": "bounded", "clause": bt.Desc, "result": "fail",
				"reason": "bounded exhaustive run of the real code failed (the failing cases are in the output)", "solver_output": o.Output,
				"failing_input": map[string]any{"test_output": o.Output}}
			data, _ := json.MarshalIndent(rec, "", " ")
			os.WriteFile(rp, data, 0o644)
			vioLines = append(vioLines, fmt.Sprintf("VIOLATION property=%s replay=%s obligation=%s result=fail bounded-run-failed-on-real-code", id, rp, o.Name))
			exit = 1
		}
	}
	for _, o := range callerObls {
		total++
		evObls = append(evObls, evidenceObl{Name: o.Name, Result: o.Result, Solver: o.Solver, Clause: o.Src})
		if o.Result == "unsat" {
			discharged++
		} else {
			report(o, "call-graph frame condition: "+o.Output)
		}
	}
	// counterexample replay on the real code for failed postconditions (bounded effort per run)
	nrep := 0
	for _, it := range items {
		o := it.o
		if o.Cover || o.Kind != "ensures" || o.Result == "unsat" || (tier == "thorough" && o.Result == "unsat-single") || nrep >= 8 {
			continue
		}
		known := false
		for _, f := range findings {
			if f.kind == "finding" && f.property == id && f.obligation == o.Name {
				known = true
			}
		}
		if known {
			continue
		}
		nrep++
		replays[o] = attemptReplay(it, outDir)
	}
	for _, it := range items {
		o := it.o
		if o.Cover {
			covers++
			if o.Result == "unsat" {
				// vacuous: assumptions contradictory
				total++
				evObls = append(evObls, evidenceObl{Name: o.Name, Result: "vacuous", Solver: o.Solver, Millis: o.Millis, SMT: o.SMTFile})
				report(o, "vacuity: the function's assumptions are contradictory (no path to a return is satisfiable)")
			}
			continue
		}
		total++
		solverMs += o.Millis
		ok := o.Result == "unsat"
		if tier == "thorough" && o.Result == "unsat-single" {
			ok = true // one solver proved it, none refuted; recorded as single-solver
		}
		evObls = append(evObls, evidenceObl{Name: o.Name, Result: o.Result, Solver: o.Solver, Millis: o.Millis, Where: o.Where, Clause: o.Src, SMT: o.SMTFile, Bytes: it.size})
		if ok {
			discharged++
		} else {
			report(o, "obligation not discharged")
		}
	}
	if suite.MinObls > 0 && total < suite.MinObls {
		o := &Obligation{Name: "suite#min-obligations", Result: fmt.Sprintf("only %d obligations generated, expected at least %d", total, suite.MinObls)}
		report(o, "vacuity guard: obligation count dropped")
	}
	for _, l := range vioLines {
		fmt.Println(l)
	}
	// evidence
	tb := []string{"go/packages + go/ssa (x/tools v0.29.0) lowering of /repo's working tree", "govc symbolic executor and SMT encoding (/verif/engine)", "SMT solvers z3 4.8.12, z3 5.1.0, cvc5 1.0 (first unsat wins in quick tier; two agreeing answers in thorough tier)", "sync.Mutex/RWMutex mutual exclusion"}
	for _, k := range sortedKeys(trusted) {
		tb = append(tb, "assumed contract: "+k)
	}
	var samples []any
	for i, e := range evObls {
		if i%max(1, len(evObls)/5) == 0 && len(samples) < 6 {
			samples = append(samples, e)
		}
	}
	assume := append([]string{}, suite.Assumes...)
	assume = append(assume, "integers are mathematical (overflow only checked in functions marked `check overflow`); float64 is (NaN flag, real value) without rounding or infinities",
		"time.Time is an integer number of nanoseconds on one linear timeline (zero time = 0); monotonic readings are not modelled",
		"append never aliases its result with the argument's backing array",
		"each function is verified as a sequential program: other goroutines and requests are modelled only where a contract says so (monitor rule at lock acquisitions: guarded fields havoced, invariant re-assumed; store-interface calls: abstract queue content may have changed); schedules inside a lock-free stretch of a function are not explored")
	for _, k := range sortedKeys(assumptions) {
		assume = append(assume, k)
	}
	for _, k := range sortedKeys(axioms) {
		assume = append(assume, "axiom: "+k)
	}
	for _, k := range sortedKeys(unknown) {
		assume = append(assume, "callee without contract, result and heap havoced: "+k)
	}
	for _, k := range sortedKeys(dropped) {
		assume = append(assume, "not modelled: "+k)
	}
	cov := map[string]any{
		"obligations": total, "discharged": discharged,
		"checker_cmd":              fmt.Sprintf("./check %s %s", id, tier),
		"trusted_base":             tb,
		"samples":                  samples,
		"functions_under_contract": funcsUnder,
		"obligation_results":       evObls,
		"solver_time_s":            float64(solverMs) / 1000,
		"covers":                   covers,
		"min_obligations":          suite.MinObls,
		"unverified_surroundings":  suite.Unverified,
		"bounded":                  append(boundedEv, toAny(suite.Bounded)...),
		"pure_externals_havoced":   sortedKeys(pureExt),
		"contract_files":           C.Files,
		"tier_timeout_s":           opts.timeoutS,
		"two_solver_agreement":     opts.all,
	}
	ev := map[string]any{"property_id": id, "tier": tier, "seed": seed, "level": "proof", "coverage": cov, "assumptions": assume,
		"wall_s": time.Since(t0).Seconds(), "violations": violations}
	os.MkdirAll(evDir, 0o755)
	data, _ := json.MarshalIndent(ev, "", " ")
	if err := os.WriteFile(filepath.Join(evDir, id+".json"), data, 0o644); err != nil {
		return engineErr("evidence: %v", err)
	}
	fmt.Printf("property=%s tier=%s obligations=%d discharged=%d covers=%d violations=%d wall=%.1fs\n", id, tier, total, discharged, covers, violations, time.Since(t0).Seconds())
	return exit
}

func lemmaObligation(P *Program, C *Contracts, label string) (*Exec, *Obligation, error) {
	for _, l := range C.Lemmas {
		if l.Label != label {
			continue
		}
		x := &Exec{P: P, C: C, key: "lemma", D: newDecls(), initHeap: map[string]*Term{}, heapSort: map[string]Sort{}, lits: map[string]*Term{},
			sentinel: map[string]*Term{}, ufuncs: map[string]bool{}, axiomsOn: map[string]bool{}, trusted: map[string]bool{}, unknown: map[string]bool{}, siteCount: map[string]int{},
			params: map[string]*Val{}}
		x.initMaps()
		x.pkg = l.Pkg
		st := &State{heap: map[string]*Term{}, ghost: map[string]*Val{}, reach: tTrue}
		if err := x.emitAxioms(st); err != nil {
			return nil, nil, err
		}
		c := &SpecCtx{st: st, old: st, vars: map[string]*Val{}, pkg: l.Pkg}
		t, err := x.specBool(c, l.E)
		if err != nil {
			return nil, nil, fmt.Errorf("%s: lemma %s: %v", l.Where, label, err)
		}
		o := &Obligation{Name: "lemma#" + label, Kind: "lemma", Label: label, Prefix: len(x.asserts), Reach: tTrue, Goal: t, Src: l.Src, Where: l.Where}
		return x, o, nil
	}
	return nil, nil, fmt.Errorf("lemma %s not declared", label)
}

func mainReplay(args []string) int {
	if len(args) < 1 {
		fmt.Fprintln(os.Stderr, "usage: govc replay <file>")
		return 2
	}
	data, err := os.ReadFile(args[0])
	if err != nil {
		fmt.Fprintln(os.Stderr, err)
		return 2
	}
	var rec struct {
		Property   string         `json:"property"`
		Obligation string         `json:"obligation"`
		Clause     string         `json:"clause"`
		Result     string         `json:"result"`
		Reason     string         `json:"reason"`
		Replay     *replayOutcome `json:"replay"`
	}
	if err := json.Unmarshal(data, &rec); err != nil {
		fmt.Fprintln(os.Stderr, err)
		return 2
	}
	fmt.Printf("property=%s obligation=%s result=%s\nclause: %s\nreason: %s\n", rec.Property, rec.Obligation, rec.Result, rec.Clause, rec.Reason)
	if rec.Replay == nil || rec.Replay.TestSource == "" {
		why := "the obligation is not a postcondition of a side-effect-free function"
		if rec.Replay != nil && rec.Replay.Why != "" {
			why = rec.Replay.Why
		}
		fmt.Printf("no failing input was found for this obligation (%s); the solver output is in the replay file\n", why)
		return 0
	}
	fmt.Printf("call on the real code: %s\n", rec.Replay.Call)
	lines, cmd, err := runReplayTest(rec.Replay.PkgDir, rec.Replay.TestSource)
	fmt.Printf("ran: %s\n", cmd)
	if err != nil {
		fmt.Printf("replay did not run: %v\n", err)
		return 2
	}
	for _, l := range lines {
		fmt.Printf("observed: %s\n", l)
	}
	same := strings.Join(lines, "\n") == strings.Join(rec.Replay.Observed, "\n")
	if rec.Replay.Reproduced && same {
		fmt.Printf("REPRODUCED: the real code returns what was recorded, on which the clause is false\n")
		return 1
	}
	if rec.Replay.Reproduced {
		fmt.Printf("the working tree now behaves differently from the recorded run (recorded: %v)\n", rec.Replay.Observed)
		return 0
	}
	fmt.Printf("not reproduced when recorded: %s\n", rec.Replay.Why)
	return 0
}

// mainVC prints the obligations of one function (debugging aid): govc vc <pkgs> <funckey> [name-substring]
func mainVC(args []string) int {
	if len(args) < 2 {
		fmt.Fprintln(os.Stderr, "usage: govc vc <pkgs,comma> <funckey> [obligation-substring]")
		return 2
	}
	P, err := loadProgram(strings.Split(args[0], ","))
	if err != nil {
		fmt.Fprintln(os.Stderr, err)
		return 2
	}
	C, err := loadAllContracts(P)
	if err != nil {
		fmt.Fprintln(os.Stderr, err)
		return 2
	}
	x, err := runFunc(P, C, args[1])
	if err != nil {
		fmt.Fprintln(os.Stderr, "error:", err)
		return 2
	}
	fmt.Println("unknown callees (heap havoced):", sortedKeys(x.unknown))
	fmt.Println("pure externals (result havoced):", sortedKeys(x.pureExt))
	fmt.Println("assumed contracts/models:", sortedKeys(x.trusted))
	fmt.Println("dropped:", sortedKeys(x.dropped))
	fmt.Println("callee clauses not usable at call sites (skipped):", sortedKeys(x.skippedEnsures))
	var items []*oblItem
	for _, o := range x.obls {
		if len(args) > 2 && !strings.Contains(o.Name, args[2]) {
			continue
		}
		items = append(items, &oblItem{o: o, x: x})
	}
	outDir := filepath.Join(verifDir, "out", "_vc")
	solveAll(items, outDir, solveOpts{timeoutS: 10}, 6)
	for _, it := range items {
		fmt.Printf("%-12s %-10s %5dms %s  [%s]\n", it.o.Result, it.o.Solver, it.o.Millis, it.o.Name, it.o.Where)
		if it.o.Result != "unsat" {
			fmt.Printf("    clause: %s\n    smt: %s\n", it.o.Src, it.o.SMTFile)
		}
		if it.o.Result == "sat" && os.Getenv("GOVC_MODEL") != "" {
			mf := it.o.SMTFile + ".model.smt2"
			os.WriteFile(mf, []byte(it.x.query(it.o, true)), 0o644)
			out, _ := exec.Command("z3-new", "-smt2", "-T:10", mf).CombinedOutput()
			fmt.Println(trunc(string(out), 6000))
		}
	}
	return 0
}

func toAny(ss []string) []any {
	var out []any
	for _, s := range ss {
		out = append(out, s)
	}
	return out
}
