package main

import (
	"net/textproto"
	"path"
)

func canonicalHeaderKey(s string) string { return textproto.CanonicalMIMEHeaderKey(s) }
func pathClean(s string) string          { return path.Clean(s) }
