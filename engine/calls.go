package main

import (
	"sort"
	"fmt"
	"go/token"
	"go/types"
	"strings"

	"golang.org/x/tools/go/ssa"
)

// calleeKey computes the contract key for a call.
func (x *Exec) calleeKey(c *ssa.CallCommon) string {
	key := x.calleeKey0(c)
	// a contract for a func-typed local/parameter may be scoped to the calling function: `extern local:fn@pkg.(*T).M(...)`
	if strings.HasPrefix(key, "local:") || strings.HasPrefix(key, "param:") {
		if _, ok := x.C.Funcs[key+"@"+x.key]; ok {
			return key + "@" + x.key
		}
	}
	return key
}

func (x *Exec) calleeKey0(c *ssa.CallCommon) string {
	if c.IsInvoke() {
		return ifaceMethodKey(c.Value.Type(), c.Method)
	}
	switch v := c.Value.(type) {
	case *ssa.Function:
		return x.P.funcKey(v)
	case *ssa.Builtin:
		return "builtin." + v.Name()
	case *ssa.MakeClosure:
		return x.P.funcKey(v.Fn.(*ssa.Function))
	case *ssa.UnOp:
		if fa, ok := v.X.(*ssa.FieldAddr); ok {
			pt := fa.X.Type().Underlying().(*types.Pointer).Elem()
			return fieldFuncKey(pt, fa.Field)
		}
		if g, ok := v.X.(*ssa.Global); ok {
			return "var:" + globalName(g)
		}
		if a, ok := v.X.(*ssa.Alloc); ok {
			return "local:" + a.Comment
		}
	case *ssa.Field:
		return fieldFuncKey(v.X.Type(), v.Field)
	case *ssa.Parameter:
		return "param:" + v.Name()
	}
	return "dynamic:" + c.Value.Name()
}

func namedKey(t types.Type) string {
	t = types.Unalias(t)
	if p, ok := t.(*types.Pointer); ok {
		t = types.Unalias(p.Elem())
	}
	if n, ok := t.(*types.Named); ok {
		pk := ""
		if n.Obj().Pkg() != nil {
			pk = n.Obj().Pkg().Path()
			if strings.HasPrefix(pk, modPath+"/internal/") {
				pk = strings.TrimPrefix(pk, modPath+"/internal/")
			}
			pk += "."
		}
		return pk + n.Obj().Name()
	}
	return typeKey(t)
}

func ifaceMethodKey(t types.Type, m *types.Func) string {
	return namedKey(t) + "." + m.Name()
}

func fieldFuncKey(structT types.Type, field int) string {
	st := structT.Underlying().(*types.Struct)
	return namedKey(structT) + "." + st.Field(field).Name()
}

func (x *Exec) calleeContract(c *ssa.CallCommon) (string, *FuncContract) {
	key := x.calleeKey(c)
	return key, x.C.lookupFunc(key)
}

var purePkgPrefixes = []string{"strings.", "strconv.", "fmt.", "errors.", "time.", "math.", "math/rand.", "math/rand/v2.", "bytes.", "unicode.", "unicode/utf8.",
	"path.", "path/filepath.", "net/url.", "net/netip.", "net.", "encoding/", "crypto/", "hash.", "context.", "log/slog.", "log.", "regexp.", "os.", "io.", "sync.", "sync/atomic.",
	"net/http.", "net/textproto.", "mime.", "slices.", "maps.", "cmp.", "runtime.", "reflect.", "go.opentelemetry.io/", "google.golang.org/", "sort.Strings", "sort.SearchStrings", "sort.Ints", "bufio.", "io/fs.", "syscall.", "os/signal.", "os/exec.", "container/", "database/sql."}

// valuePureKey: standard-library callees that keep no pointer handed to an earlier call (they cannot write a local
// whose address escaped into an interface value).
func valuePureKey(key string) bool {
	for _, p := range []string{"time.", "strings.", "strconv.", "errors.", "math.", "bytes.", "unicode.", "unicode/utf8.", "context.", "path.", "net/url.", "net/netip.", "model:"} {
		if strings.HasPrefix(key, p) {
			return true
		}
	}
	return false
}

// isPureExtern: callee outside the repository whose effects do not touch modelled heap state
// (results are havoced; pointer-to-local arguments are havoced).
func (x *Exec) isPureExtern(key string, c *ssa.CallCommon) bool {
	if strings.HasPrefix(key, "builtin.") {
		return true
	}
	for _, p := range purePkgPrefixes {
		if strings.HasPrefix(key, p) {
			return true
		}
	}
	if key == "error.Error" || key == "ret:pure-extern-func-value" {
		return true
	}
	return false
}

func (x *Exec) execCall(st *State, c *ssa.CallCommon, instr ssa.Value, pos token.Pos) (*Val, error) {
	var args []*Val
	for _, a := range c.Args {
		args = append(args, x.val(st, a))
	}
	var fnVal *Val
	if c.IsInvoke() {
		fnVal = x.val(st, c.Value)
	} else {
		switch c.Value.(type) {
		case *ssa.Function, *ssa.Builtin:
		default:
			fnVal = x.val(st, c.Value)
		}
	}
	return x.execCallWith(st, c, args, fnVal, instr, pos)
}

func (x *Exec) resultType(c *ssa.CallCommon) types.Type {
	sig := c.Signature()
	switch sig.Results().Len() {
	case 0:
		return nil
	case 1:
		return sig.Results().At(0).Type()
	}
	return sig.Results()
}

func (x *Exec) execCallWith(st *State, c *ssa.CallCommon, args []*Val, fnVal *Val, instr ssa.Value, pos token.Pos) (*Val, error) {
	v, err := x.execCallInner(st, c, args, fnVal, instr, pos)
	if err == nil && x.fc != nil {
		key := x.calleeKey(c)
		for _, ld := range x.fc.Labels {
			if _, done := x.labels[ld.Name]; done {
				continue
			}
			if ld.Callee == key || ld.Callee == shortKey(key) || strings.HasSuffix(key, "."+ld.Callee) {
				x.labels[ld.Name] = st.clone()
			}
		}
	}
	return v, err
}

func (x *Exec) execCallInner(st *State, c *ssa.CallCommon, args []*Val, fnVal *Val, instr ssa.Value, pos token.Pos) (*Val, error) {
	if b, ok := c.Value.(*ssa.Builtin); ok && !c.IsInvoke() {
		return x.execBuiltin(st, b.Name(), c, args, pos)
	}
	key := x.calleeKey(c)
	// locals whose address was boxed into an interface may be written by any callee that could have kept the
	// pointer; value-only standard-library packages keep none. The havoc happens after the call-site clauses were
	// evaluated (they describe the state in which the call is made).
	escHavoc := func() {
		if valuePureKey(key) {
			return
		}
		for al := range x.escaped {
			if cur, ok := st.cells[al]; ok && isSMTVal(cur) {
				et := al.Type().(*types.Pointer).Elem()
				nv := x.havocVal(et, "esc."+al.Comment)
				x.assume(st, x.typeFacts(nv, et))
				st.cells[al] = nv
			}
		}
		// heap-allocated struct locals: only callees outside the repository are suspected of writing through a pointer
		// they were handed in an interface earlier (row.Scan(&v)); in-repository callees are governed by their contracts
		inRepo := strings.HasPrefix(key, "local:") || strings.HasPrefix(key, "param:") || x.P.isRepoKey(key)
		for _, al := range x.escapedObjs {
			if inRepo {
				break
			}
			if rv, ok := x.regs[al]; ok && rv.K == VScalar {
				et := al.Type().(*types.Pointer).Elem()
				nv := x.havocVal(et, "escobj."+al.Comment)
				x.assume(st, x.typeFacts(nv, et))
				x.storeObj(st, rv.T, et, "", et, nv)
			}
		}
	}
	// a closure value whose function is statically known
	if fnVal != nil && fnVal.K == VClosure && fnVal.Clo.Fn != nil && !c.IsInvoke() {
		key = x.P.funcKey(fnVal.Clo.Fn)
	}
	fc := x.C.lookupFunc(key)
	if fc == nil && fnVal != nil && fnVal.K == VScalar && x.pureFuncs[fnVal.T.String()] {
		key = "ret:pure-extern-func-value"
	}
	allArgs := args
	if c.IsInvoke() {
		allArgs = append([]*Val{fnVal}, args...)
	}
	if err := x.checkCallsClauses(st, key, fc, c, allArgs, pos); err != nil {
		return nil, err
	}
	escHavoc()
	if fc == nil {
		if v, handled, err := x.builtinExtern(st, key, c, allArgs, pos); handled {
			return v, err
		}
		return x.havocCall(st, key, c, allArgs, pos), nil
	}
	return x.contractCall(st, key, fc, c, allArgs, fnVal, pos)
}

// havocCall models a callee without contract.
func (x *Exec) havocCall(st *State, key string, c *ssa.CallCommon, args []*Val, pos token.Pos) *Val {
	pure := x.isPureExtern(key, c)
	for _, a := range args {
		if a.K == VPath && a.Path.Cell != nil {
			// out-parameter: havoc the addressed local
			rootT := a.Path.Cell.Type().(*types.Pointer).Elem()
			if cur, ok := st.cells[a.Path.Cell]; ok && cur.K == VScalar && cur.T.S == SAny && cur.Typ != nil {
				continue
			}
			nv := x.havocVal(rootT, "out."+a.Path.Cell.Comment)
			x.assume(st, x.typeFacts(nv, rootT))
			st.cells[a.Path.Cell] = nv
		}
	}
	if !pure {
		x.unknown[key] = true
		x.havocAllHeap(st, "call")
		for g := range st.ghost {
			if !strings.HasPrefix(g, "$") && !strings.HasPrefix(g, "lg:") {
				// ghost protocol state is only changed by contracts, never by unknown code
				continue
			}
		}
	} else {
		x.pureExt[key] = true
	}
	rt := x.resultType(c)
	if rt == nil {
		return unitVal
	}
	if pure && isDeterministicExtern(key) {
		if dv, ok := x.detExternResult(st, key, args, rt); ok {
			x.detExt[key] = true
			return dv
		}
	}
	v := x.havocVal(rt, "ret."+shortKey(key))
	x.assume(st, x.typeFacts(v, rt))
	if nonNilResult[key] && v.K == VScalar && v.T.S == SInt {
		x.assume(st, tCmp(">", v.T, intLit(0)))
	}
	if pure {
		// func values handed out by effect-free externals (context cancel funcs, ...) are effect-free on modelled state
		var mark func(v *Val, t types.Type)
		mark = func(v *Val, t types.Type) {
			switch v.K {
			case VScalar:
				if _, ok := t.Underlying().(*types.Signature); ok {
					x.pureFuncs[v.T.String()] = true
				}
			case VTuple:
				for i, f := range v.F {
					mark(f, t.(*types.Tuple).At(i).Type())
				}
			}
		}
		mark(v, rt)
	}
	return v
}

func shortKey(k string) string {
	if i := strings.LastIndex(k, "/"); i >= 0 {
		k = k[i+1:]
	}
	return k
}

// paramNames of a contracted callee, in call-argument order.
func (x *Exec) contractParamNames(key string, fc *FuncContract, c *ssa.CallCommon) []string {
	if len(fc.Params) > 0 {
		return fc.Params
	}
	if f := x.P.funcs[key]; f != nil {
		var ns []string
		for _, p := range f.Params {
			ns = append(ns, p.Name())
		}
		return ns
	}
	return nil
}

func (x *Exec) contractCall(st *State, key string, fc *FuncContract, c *ssa.CallCommon, args []*Val, fnVal *Val, pos token.Pos) (*Val, error) {
	if fc.Kind != "func" || fc.Trusted {
		x.trusted[key] = true
	} else {
		x.usedContracts[key] = true
	}
	names := x.contractParamNames(key, fc, c)
	// closure bindings become extra leading "params" by free-variable name
	vars := map[string]*Val{}
	sigParams := calleeParamTypes(c, fc, x.P.funcs[key])
	type copyBack struct {
		cell *ssa.Alloc
		path *Path
		ref  *Term
		t    types.Type
	}
	var backs []copyBack
	for i, a := range args {
		if a.K == VPath && a.Path != nil && (a.Path.Cell != nil) && len(a.Path.Sel) == 0 && !a.Path.Opaque {
			// pointer to a local passed to a contracted callee: materialise as a temporary heap object
			et := a.Path.Cell.Type().(*types.Pointer).Elem()
			if k, _ := classify(et); k == TStruct || k == TScalar || k == TSlice {
				r := x.newRef(st, "tmp."+a.Path.Cell.Comment)
				x.storeObj(st, r, et, "", et, x.loadPath(st, a.Path))
				backs = append(backs, copyBack{a.Path.Cell, a.Path, r, et})
				a = scalar(r, types.NewPointer(et))
			}
		}
		if a.K == VPath && a.Path.Ref != nil && len(a.Path.Sel) > 0 {
			// interior pointer (e.g. &s.mu): opaque
			a = scalar(x.D.fresh("interior", SInt), nil)
		}
		if i < len(names) {
			v := a
			if i < len(sigParams) && sigParams[i] != nil {
				v = retype(a, sigParams[i])
			}
			vars[names[i]] = v
		}
	}
	if fnVal != nil && isSMTVal(fnVal) {
		vars["callee"] = fnVal
	}
	if f := x.P.funcs[key]; f != nil && fnVal != nil && fnVal.K == VClosure {
		for i, fv := range f.FreeVars {
			if i < len(fnVal.Clo.Bindings) {
				b := fnVal.Clo.Bindings[i]
				if b.K == VPath && b.Path.Cell != nil {
					cur := x.loadPath(st, b.Path)
					vars[fv.Name()] = retypeIfNil(cur, fv.Type().(*types.Pointer).Elem())
				}
			}
		}
	}
	short := shortKey(key)
	ctx := &SpecCtx{st: st, old: st, vars: vars, pkg: fc.Pkg, locals: false}
	for _, r := range fc.Requires {
		t, err := x.specBool(ctx, r.E)
		if err != nil {
			return nil, fmt.Errorf("%s: requires of %s at call: %v", r.Where, key, err)
		}
		x.oblige(st, "requires", short+":"+r.Label, t, pos, r.Src, r.Tags)
		x.assume(st, t)
	}
	if fc.Monitor == "locked" {
		x.oblige(st, "requires", short+":lock-held", st.ghost["$heldW"].T, pos, "callee expects the monitor lock to be held", nil)
	}
	pre := st.clone()
	// lock operations of monitors
	if err := x.applyModifiesAll(st, fc, vars, pre); err != nil {
		return nil, fmt.Errorf("%s: modifies of %s: %v", fc.Where, key, err)
	}
	rt := x.resultType(c)
	var res *Val = unitVal
	post := map[string]*Val{}
	for k, v := range vars {
		post[k] = v
	}
	if rt != nil {
		res = x.havocVal(rt, "ret."+short)
		x.assume(st, x.typeFacts(res, rt))
		if rf := x.refFacts(st, res, rt); !isTrue(rf) {
			// the callee may have allocated: the allocation set grows, and returned references lie in it
			x.havocHeapKey(st, allocKey, "call")
			x.assume(st, x.refFacts(st, res, rt))
		}
		if res.K == VTuple {
			for i, f := range res.F {
				post[fmt.Sprintf("result%d", i)] = retypeIfNil(f, rt.(*types.Tuple).At(i).Type())
				if i < len(fc.Results) {
					post[fc.Results[i]] = post[fmt.Sprintf("result%d", i)]
				}
			}
			post["result"] = res
		} else {
			post["result"] = res
			post["result0"] = res
			if len(fc.Results) > 0 {
				post[fc.Results[0]] = res
			}
		}
		// named results of a repo function
		if f := x.P.funcs[key]; f != nil {
			rs := f.Signature.Results()
			for i := 0; i < rs.Len(); i++ {
				if n := rs.At(i).Name(); n != "" && n != "_" {
					post[n] = post[fmt.Sprintf("result%d", i)]
				}
			}
		}
	}
	ectx := &SpecCtx{st: st, old: pre, vars: post, pkg: fc.Pkg, locals: false}
	for _, e := range fc.Ensures {
		t, err := x.specBool(ectx, e.E)
		if err != nil {
			if strings.Contains(e.Src, "rangeindex") || strings.Contains(e.Src, "local(") || strings.Contains(err.Error(), "unknown identifier") || strings.Contains(err.Error(), "only defined after") {
				x.skippedEnsures[key+"#"+e.Label] = true
				continue // clause with an explicit body-local witness: meaningful only inside the callee, not assumed by callers
			}
			return nil, fmt.Errorf("%s: ensures of %s at call: %v", e.Where, key, err)
		}
		x.assume(st, t)
	}
	// ghost assignments the callee makes at its exit (`sets g := e`): assumed when e reads the assigned ghosts only
	// through old() (otherwise the value depends on the callee's body-internal ghost state and is left havoced)
	setNames := map[string]bool{}
	for _, sd := range fc.Sets {
		setNames[sd.Name] = true
	}
	for _, sd := range fc.Sets {
		if mentionsOutsideOld(sd.E, setNames, false) {
			continue
		}
		cur, ok := st.ghost[sd.Name]
		if !ok {
			continue
		}
		v, err := x.specEval(ectx, sd.E)
		if err != nil || !sameShape(cur, v) {
			continue
		}
		x.assume(st, valEqRaw(cur, v))
	}
	for _, b := range backs {
		st.cells[b.cell] = x.loadObj(st, b.ref, b.t, "", b.t)
	}
	return res, nil
}

func sameShape(a, b *Val) bool {
	if a == nil || b == nil || a.K != b.K || len(a.F) != len(b.F) {
		return false
	}
	if a.K == VScalar {
		return a.T != nil && b.T != nil && a.T.S == b.T.S
	}
	for i := range a.F {
		if !sameShape(a.F[i], b.F[i]) {
			return false
		}
	}
	return true
}

func mentionsOutsideOld(e *Expr, names map[string]bool, inOld bool) bool {
	if e == nil {
		return false
	}
	if e.Kind == "ident" && names[e.Name] && !inOld {
		return true
	}
	io := inOld || (e.Kind == "call" && e.Name == "old")
	for _, a := range e.Args {
		if mentionsOutsideOld(a, names, io) {
			return true
		}
	}
	return false
}

func calleeParamTypes(c *ssa.CallCommon, fc *FuncContract, f *ssa.Function) []types.Type {
	var out []types.Type
	if f != nil {
		for _, p := range f.Params {
			out = append(out, p.Type())
		}
		return out
	}
	sig := c.Signature()
	if c.IsInvoke() {
		out = append(out, c.Value.Type())
	} else if sig.Recv() != nil {
		out = append(out, sig.Recv().Type())
	}
	for i := 0; i < sig.Params().Len(); i++ {
		out = append(out, sig.Params().At(i).Type())
	}
	return out
}

// applyModifiesAll havocs what the callee's modifies clause names.
// ghostsMentioned: declared ghost variables that a contract's ensures/sets clauses constrain (outside old()).
func (x *Exec) ghostsMentioned(fc *FuncContract) map[string]bool {
	out := map[string]bool{}
	oldMention := map[string]bool{}
	var walk func(e *Expr, inOld bool, bound map[string]bool)
	walk = func(e *Expr, inOld bool, bound map[string]bool) {
		if e == nil {
			return
		}
		switch e.Kind {
		case "ident":
			if _, ok := x.C.Ghosts[e.Name]; ok && !bound[e.Name] {
				if inOld {
					oldMention[e.Name] = true
				} else {
					out[e.Name] = true
				}
			}
		case "call":
			io := inOld || e.Name == "old"
			for _, a := range e.Args {
				walk(a, io, bound)
			}
			return
		case "forall", "exists", "setof", "let":
			b2 := map[string]bool{}
			for k := range bound {
				b2[k] = true
			}
			for _, bv := range e.BVars {
				b2[bv.Name] = true
			}
			if e.Kind == "let" {
				walk(e.Args[0], inOld, bound)
				b2[e.Name] = true
				walk(e.Args[1], inOld, b2)
				return
			}
			for _, a := range e.Args {
				walk(a, inOld, b2)
			}
			return
		}
		for _, a := range e.Args {
			walk(a, inOld, bound)
		}
	}
	for _, c := range fc.Ensures {
		walk(c.E, false, map[string]bool{})
	}
	// a ghost related to its own old() value is being updated; one only observed (no old()) is not
	for g := range out {
		if !oldMention[g] {
			delete(out, g)
		}
	}
	for _, sd := range fc.Sets {
		out[sd.Name] = true
	}
	return out
}

func (x *Exec) applyModifiesAll(st *State, fc *FuncContract, vars map[string]*Val, pre *State) error {
	// a ghost variable constrained by the callee's postcondition is (possibly) changed by the call, whether or
	// not the modifies clause lists it: otherwise an ensures about it could contradict the caller's knowledge
	for g := range x.ghostsMentioned(fc) {
		if _, bound := vars[g]; bound {
			continue
		}
		if cur, ok := st.ghost[g]; ok {
			st.ghost[g] = x.havocLike(cur, "mod."+g)
		}
	}
	if fc.ModAll {
		x.havocAllHeap(st, "call")
		// preserved locations keep their pre-call values
		for _, pe := range fc.Preserves {
			ctx := &SpecCtx{st: pre, old: pre, vars: vars, pkg: fc.Pkg, locals: false}
			err := x.frameAllow(ctx, pe, func(key string, whole bool, ref *Term) {
				s, ok := x.heapSort[key]
				if !ok {
					return
				}
				prev := x.heapGet(pre, key, s)
				if whole {
					st.heap[key] = prev
				} else {
					cur := x.heapGet(st, key, s)
					st.heap[key] = tStore(cur, ref, tSelect(prev, ref))
				}
			})
			if err != nil {
				return fmt.Errorf("preserves %s: %v", pe.String(), err)
			}
		}
	}
	for _, m := range fc.Modifies {
		ctx := &SpecCtx{st: pre, old: pre, vars: vars, pkg: fc.Pkg, locals: false}
		if err := x.applyModifies(st, ctx, m); err != nil {
			return err
		}
	}
	return nil
}

func (x *Exec) isTypeName(c *SpecCtx, name string) (types.Type, bool) {
	if _, bound := c.vars[name]; bound {
		return nil, false
	}
	t, err := x.goType(name, c.pkg)
	if err != nil {
		return nil, false
	}
	return t, true
}

func (x *Exec) applyModifies(st *State, c *SpecCtx, m *Expr) error {
	switch m.Kind {
	case "ident":
		if g, ok := st.ghost[m.Name]; ok {
			if _, bound := c.vars[m.Name]; !bound {
				st.ghost[m.Name] = x.havocLike(g, "mod."+m.Name)
				return nil
			}
		}
		v, err := x.specEval(c, m)
		if err != nil {
			return err
		}
		return x.havocContent(st, v, m)
	case "field":
		// T.f / T.* type-wide
		if m.Args[0].Kind == "ident" {
			if t, ok := x.isTypeName(c, m.Args[0].Name); ok {
				return x.havocTypeField(st, t, m.Name)
			}
		}
		if m.Args[0].Kind == "field" && m.Args[0].Args[0].Kind == "ident" {
			// pkg.T.f
			if t, err := x.goType(m.Args[0].Args[0].Name+"."+m.Args[0].Name, c.pkg); err == nil {
				if _, bound := c.vars[m.Args[0].Args[0].Name]; !bound {
					return x.havocTypeField(st, t, m.Name)
				}
			}
		}
		b, err := x.specEval(c, m.Args[0])
		if err != nil {
			return err
		}
		if b.K != VScalar || b.Typ == nil {
			return fmt.Errorf("modifies %s: base is not a pointer", m.String())
		}
		pt, ok := b.Typ.Underlying().(*types.Pointer)
		if !ok {
			return fmt.Errorf("modifies %s: base is not a pointer", m.String())
		}
		stt, ok := pt.Elem().Underlying().(*types.Struct)
		if !ok {
			return fmt.Errorf("modifies %s: not a struct", m.String())
		}
		for i := 0; i < stt.NumFields(); i++ {
			f := stt.Field(i)
			if m.Name != "*" && f.Name() != m.Name {
				continue
			}
			if _, isMap := f.Type().Underlying().(*types.Map); isMap && m.Name != "*" {
				// map-typed field: the map's content
				cur := x.loadObj(c.st, b.T, pt.Elem(), f.Name(), f.Type())
				return x.havocContent(st, cur, m)
			}
			for _, lf := range leavesUnder(f.Type(), f.Name()) {
				key := objKey(pt.Elem(), lf)
				s, ok := x.heapSort[key]
				if !ok {
					continue
				}
				_, vs, _ := arrParts(s)
				h := x.heapGet(st, key, s)
				x.heapSet(st, key, tStore(h, b.T, x.D.fresh("mod."+lf, vs)))
			}
		}
		return nil
	case "index":
		// e[*]: slice elements
		b, err := x.specEval(c, m.Args[0])
		if err != nil {
			return err
		}
		if b.K != VSlice {
			return fmt.Errorf("modifies %s: not a slice", m.String())
		}
		et := b.Typ.Underlying().(*types.Slice).Elem()
		for _, lf := range leavesOf(et) {
			key := sliceKey(et, lf.Path)
			s, ok := x.heapSort[key]
			if !ok {
				continue
			}
			_, vs, _ := arrParts(s)
			h := x.heapGet(st, key, s)
			x.heapSet(st, key, tStore(h, b.F[0].T, x.D.fresh("mod.elems", vs)))
		}
		return nil
	case "call":
		if m.Name == "maps" && len(m.Args) == 1 {
			// maps(T): the content of every map of (named or literal) map type T
			mt, err := x.mapTypeOf(c, m.Args[0])
			if err != nil {
				return err
			}
			for _, key := range mapKeys(mt) {
				s, ok := x.heapSort[key]
				if !ok {
					continue
				}
				x.heapSet(st, key, x.D.fresh("mod.maps", s))
			}
			return nil
		}
		if m.Name == "elems" && len(m.Args) == 1 {
			// elems(T): the elements of every []T
			et, err := x.goType(m.Args[0].String(), c.pkg)
			if err != nil {
				return fmt.Errorf("elems(%s): %v", m.Args[0].String(), err)
			}
			for _, lf := range leavesOf(et) {
				key := sliceKey(et, lf.Path)
				s, ok := x.heapSort[key]
				if !ok {
					continue
				}
				x.heapSet(st, key, x.D.fresh("mod.elems", s))
			}
			return nil
		}
		if m.Name == "field" && len(m.Args) == 1 && m.Args[0].Kind == "field" {
			// field(e.f): the field itself even when map-typed
			b, err := x.specEval(c, m.Args[0].Args[0])
			if err != nil {
				return err
			}
			pt, ok := b.Typ.Underlying().(*types.Pointer)
			if !ok {
				return fmt.Errorf("modifies %s: base is not a pointer", m.String())
			}
			stt := pt.Elem().Underlying().(*types.Struct)
			for i := 0; i < stt.NumFields(); i++ {
				f := stt.Field(i)
				if f.Name() != m.Args[0].Name {
					continue
				}
				for _, lf := range leavesUnder(f.Type(), f.Name()) {
					key := objKey(pt.Elem(), lf)
					s, ok := x.heapSort[key]
					if !ok {
						continue
					}
					_, vs, _ := arrParts(s)
					h := x.heapGet(st, key, s)
					x.heapSet(st, key, tStore(h, b.T, x.D.fresh("mod."+lf, vs)))
				}
			}
			return nil
		}
	}
	return fmt.Errorf("unsupported modifies entry %q", m.String())
}

// havocContent havocs the content of a map value (or all fields of a pointed-to object).
func (x *Exec) havocContent(st *State, v *Val, m *Expr) error {
	if v.K == VScalar && v.Typ != nil {
		switch t := v.Typ.Underlying().(type) {
		case *types.Map:
			for _, key := range mapKeys(t) {
				s, ok := x.heapSort[key]
				if !ok {
					continue
				}
				_, vs, _ := arrParts(s)
				h := x.heapGet(st, key, s)
				x.heapSet(st, key, tStore(h, v.T, x.D.fresh("mod.map", vs)))
			}
			return nil
		case *types.Pointer:
			for _, lf := range leavesOf(t.Elem()) {
				key := objKey(t.Elem(), lf.Path)
				s, ok := x.heapSort[key]
				if !ok {
					continue
				}
				_, vs, _ := arrParts(s)
				h := x.heapGet(st, key, s)
				x.heapSet(st, key, tStore(h, v.T, x.D.fresh("mod.obj", vs)))
			}
			return nil
		}
	}
	return fmt.Errorf("modifies %s: value has no modelled content", m.String())
}

func (x *Exec) havocTypeField(st *State, t types.Type, field string) error {
	if mt, ok := t.Underlying().(*types.Map); ok {
		_ = mt
		return fmt.Errorf("type-wide map modifies not supported")
	}
	stt, ok := t.Underlying().(*types.Struct)
	if !ok {
		return fmt.Errorf("modifies %s.%s: not a struct type", t, field)
	}
	found := false
	for i := 0; i < stt.NumFields(); i++ {
		f := stt.Field(i)
		if field != "*" && f.Name() != field {
			continue
		}
		found = true
		for _, lf := range leavesUnder(f.Type(), f.Name()) {
			x.havocHeapKey(st, objKey(t, lf), "mod")
		}
	}
	if !found {
		return fmt.Errorf("modifies %s.%s: no such field", t, field)
	}
	return nil
}

// modKeysStatic computes the heap keys a modifies entry may touch (for loop write sets),
// by applying it to a scratch state with dummy arguments and diffing.
func (x *Exec) modKeysStatic(m *Expr, fc *FuncContract, c *ssa.CallCommon) ([]string, string, error) {
	if m.Kind == "ident" {
		if _, ok := x.C.Ghosts[m.Name]; ok {
			return nil, m.Name, nil
		}
	}
	key := x.calleeKey(c)
	names := x.contractParamNames(key, fc, c)
	ptypes := calleeParamTypes(c, fc, x.P.funcs[key])
	vars := map[string]*Val{}
	for i, n := range names {
		if i < len(ptypes) && ptypes[i] != nil {
			vars[n] = x.havocVal(ptypes[i], "dummy")
		}
	}
	scratch := &State{cells: nil, heap: map[string]*Term{}, ghost: map[string]*Val{}, reach: tFalse}
	ctx := &SpecCtx{st: scratch, old: scratch, vars: vars, pkg: fc.Pkg}
	// make sure all known keys are considered materialised
	save := len(x.asserts)
	err := x.applyModifies(scratch, ctx, m)
	x.asserts = x.asserts[:save]
	if err != nil {
		return nil, "", err
	}
	var keys []string
	for k := range scratch.heap {
		keys = append(keys, k)
	}
	return keys, "", nil
}

// externals documented to return a non-nil pointer
var nonNilResult = map[string]bool{"time.NewTimer": true, "time.NewTicker": true, "log/slog.Default": true, "log/slog.New": true, "net/http.NewServeMux": true}


// checkCallsClauses emits the `calls <callee> requires <expr>` obligations of the function under verification
// at this call site (for any callee, contracted or not).
func (x *Exec) checkCallsClauses(st *State, key string, fc *FuncContract, c *ssa.CallCommon, args []*Val, pos token.Pos) error {
	if x.fc == nil || len(x.fc.Calls) == 0 {
		return nil
	}
	short := shortKey(key)
	var vars map[string]*Val
	if x.callSeen == nil {
		// call sites of each callee in source order: "callee@N" names the N-th of them
		x.callSeen = map[string]int{}
		x.callSites = map[string][]token.Pos{}
		for _, b := range x.fn.Blocks {
			for _, in := range b.Instrs {
				if ci, ok := in.(ssa.CallInstruction); ok {
					k := x.calleeKey(ci.Common())
					x.callSites[k] = append(x.callSites[k], ci.Pos())
				}
			}
		}
		for k := range x.callSites {
			ps := x.callSites[k]
			sort.Slice(ps, func(i, j int) bool { return ps[i] < ps[j] })
		}
	}
	siteNo := 0
	for i, p := range x.callSites[key] {
		if p == pos {
			siteNo = i + 1
		}
	}
	for _, cr0 := range x.fc.Calls {
		cr := cr0
		// "callee@N": the clause applies to the N-th call site of that callee only (in execution order of the function body)
		if i := strings.LastIndex(cr.Callee, "@"); i > 0 {
			var n int
			if _, err := fmt.Sscanf(cr.Callee[i+1:], "%d", &n); err == nil {
				cr.Callee = cr.Callee[:i]
				if n != siteNo {
					continue
				}
			}
		}
		if !(cr.Callee == key || cr.Callee == short || strings.HasSuffix(key, "."+cr.Callee) || (strings.Contains(cr.Callee, "*") && (globKey(cr.Callee, key) || globKey(cr.Callee, short) || globKey("*."+cr.Callee, key)))) {
			continue
		}
		if vars == nil {
			vars = map[string]*Val{}
			var names []string
			if fc != nil {
				names = x.contractParamNames(key, fc, c)
			} else if f := x.P.funcs[key]; f != nil {
				for _, p := range f.Params {
					names = append(names, p.Name())
				}
			}
			ptypes := calleeParamTypes(c, fc, x.P.funcs[key])
			for i, a := range args {
				if !isSMTVal(a) {
					continue
				}
				v := a
				if i < len(ptypes) && ptypes[i] != nil {
					v = retype(a, ptypes[i])
				} else if i < len(c.Args) && v.Typ == nil {
					v = retype(a, c.Args[i].Type())
				}
				if i < len(names) {
					vars["callee_"+names[i]] = v
				}
				vars["arg"+fmt.Sprint(i)] = v
			}
			// variadic call f(a, b, xs...) written with explicit arguments: vararg0.. are the values before boxing,
			// nvarargs their number
			if c.Signature().Variadic() && len(c.Args) > 0 {
				if vals, ok := varargValues(c.Args[len(c.Args)-1]); ok {
					vars["nvarargs"] = intVal(intLit(int64(len(vals))))
					for i, sv := range vals {
						if v := x.val(st, sv); isSMTVal(v) {
							vars["vararg"+fmt.Sprint(i)] = retype(v, sv.Type())
						}
					}
				}
			}
		}
		bctx := x.specCtx(st, nil)
		bctx.inBody = true
		bctx = bctx.with(vars)
		t, err := x.specBool(bctx, cr.E)
		if err != nil {
			return fmt.Errorf("%s: calls clause for %s: %v", cr.Where, key, err)
		}
		x.oblige(st, "calls", cr.Label, t, pos, cr.Src, cr.Tags)
		x.matchedCalls[cr0.Label+"|"+cr0.Callee] = true
	}
	return nil
}


var deterministicPrefixes = []string{"strings.", "strconv.", "bytes.", "unicode.", "unicode/utf8.", "path.", "net.(IP).", "net/netip.", "net.ParseIP", "net.ParseCIDR",
	"net.SplitHostPort", "net.JoinHostPort", "net/url.(*URL).", "net/url.Parse", "net/url.(Values).", "net/url.QueryUnescape", "net/url.PathUnescape", "net/textproto.", "mime.", "encoding/hex.", "encoding/base64.", "crypto/sha256.",
	"math.", "time.(Duration).", "os.(*File).Name", "time.ParseDuration", "time.Parse", "time.(Time).Format", "net/http.StatusText", "google.golang.org/grpc/metadata.", "google.golang.org/grpc/status.Error", "net/http.(*Request).BasicAuth", "net/http.(*Request).Context", "errors.Unwrap", "google.golang.org/protobuf/types/known/durationpb.(*Duration).AsDuration", "path/filepath.Clean", "path/filepath.Dir", "path/filepath.Base", "path/filepath.Join"}

// isDeterministicExtern: external functions modelled as uninterpreted *functions* of their (value) arguments.
func isDeterministicExtern(key string) bool {
	for _, p := range deterministicPrefixes {
		if strings.HasPrefix(key, p) {
			return true
		}
	}
	return false
}

// detExternResult builds f(args) per result leaf when all arguments are SMT scalars/records.
func (x *Exec) detExternResult(st *State, key string, args []*Val, rt types.Type) (*Val, bool) {
	var ts []*Term
	for _, a := range args {
		if !isSMTVal(a) {
			return nil, false
		}
		ok := true
		var rec func(v *Val)
		rec = func(v *Val) {
			switch v.K {
			case VScalar:
				ts = append(ts, v.T)
			case VUnit:
			case VStruct, VTuple, VSlice, VFloat:
				for _, f := range v.F {
					rec(f)
				}
			default:
				ok = false
			}
		}
		rec(a)
		if !ok {
			return nil, false
		}
	}
	v := buildVal(rt, "", func(path string, s Sort, _ types.Type) *Term {
		name := "ext." + key
		if path != "" {
			name += "#" + path
		}
		return x.ufApp(name, s, ts...)
	})
	x.assume(st, x.typeFacts(v, rt))
	return v, true
}

// mapTypeOf resolves the argument of maps(T) to a map type.
func (x *Exec) mapTypeOf(c *SpecCtx, e *Expr) (*types.Map, error) {
	t, err := x.goType(e.String(), c.pkg)
	if err != nil {
		return nil, fmt.Errorf("maps(%s): %v", e.String(), err)
	}
	mt, ok := t.Underlying().(*types.Map)
	if !ok {
		return nil, fmt.Errorf("maps(%s): not a map type", e.String())
	}
	return mt, nil
}
