package main

import (
	"bytes"
	"context"
	"fmt"
	"os"
	"os/exec"
	"path/filepath"
	"regexp"
	"strings"
	"sync"
	"time"
)

type solverSpec struct {
	name string
	argv func(file string, timeoutS int) []string
}

var solvers = []solverSpec{
	{"z3-5.1.0-ematch", func(f string, t int) []string {
		return []string{"z3-new", "-smt2", fmt.Sprintf("-T:%d", t), "smt.mbqi=false", "smt.auto_config=false", f}
	}},
	{"z3-5.1.0", func(f string, t int) []string { return []string{"z3-new", "-smt2", fmt.Sprintf("-T:%d", t), f} }},
	{"z3-4.8.12", func(f string, t int) []string { return []string{"z3", "-smt2", fmt.Sprintf("-T:%d", t), f} }},
	{"cvc5-1.0", func(f string, t int) []string {
		return []string{"cvc5", "--lang=smt2", fmt.Sprintf("--tlimit=%d", t*1000), "--strings-exp", "--full-saturate-quant", f}
	}},
}

type solveOpts struct {
	timeoutS int
	all      bool // run every solver to completion (thorough): need two unsat, no sat
	seed     int
}

// query renders the SMT-LIB text of an obligation.
func (x *Exec) query(o *Obligation, wantModel bool) string {
	var b strings.Builder
	if wantModel {
		b.WriteString("(set-option :produce-models true)\n")
	}
	b.WriteString(x.prelude())
	if o.Reach == nil || (o.Goal == nil && !o.Cover) {
		panic("obligation with nil reach/goal: " + o.Name)
	}
	for i, a := range x.asserts[:o.Prefix] {
		if a == nil {
			panic(fmt.Sprintf("nil background assertion %d for %s", i, o.Name))
		}
		b.WriteString("(assert ")
		b.WriteString(a.String())
		b.WriteString(")\n")
	}
	b.WriteString("(assert ")
	b.WriteString(o.Reach.String())
	b.WriteString(")\n")
	if !o.Cover {
		b.WriteString("(assert (not ")
		b.WriteString(o.Goal.String())
		b.WriteString("))\n")
	}
	b.WriteString("(check-sat)\n")
	if wantModel {
		b.WriteString("(get-model)\n")
	}
	return fixConstArrays(b.String())
}

var constArrRe = regexp.MustCompile(`\(\(as const (\(Array [A-Za-z]+ (Str|Err|Any)\))\) (str\.empty|err\.nil|any\.nil)\)`)

// fixConstArrays replaces constant arrays whose default is an uninterpreted constant (not an SMT value,
// rejected by cvc5) by a declared array with a defining axiom.
func fixConstArrays(q string) string {
	names := map[string]string{}
	var decls []string
	out := constArrRe.ReplaceAllStringFunc(q, func(m string) string {
		if n, ok := names[m]; ok {
			return n
		}
		sm := constArrRe.FindStringSubmatch(m)
		n := fmt.Sprintf("zarr!%d", len(names))
		names[m] = n
		ks := strings.Fields(strings.Trim(sm[1], "()"))[1]
		decls = append(decls, fmt.Sprintf("(declare-fun %s () %s)\n(assert (forall ((i %s)) (! (= (select %s i) %s) :pattern ((select %s i)))))\n", n, sm[1], ks, n, sm[3], n))
		return n
	})
	if len(decls) == 0 {
		return q
	}
	// insert after the sort/constant prelude: before the first (assert
	i := strings.Index(out, "(assert")
	if i < 0 {
		return out
	}
	return out[:i] + strings.Join(decls, "") + out[i:]
}

func runSolver(ctx context.Context, sp solverSpec, file string, timeoutS int) (string, string, time.Duration) {
	argv := sp.argv(file, timeoutS)
	cctx, cancel := context.WithTimeout(ctx, time.Duration(timeoutS+2)*time.Second)
	defer cancel()
	cmd := exec.CommandContext(cctx, argv[0], argv[1:]...)
	var out bytes.Buffer
	cmd.Stdout = &out
	cmd.Stderr = &out
	t0 := time.Now()
	_ = cmd.Run()
	el := time.Since(t0)
	text := out.String()
	first := ""
	for _, ln := range strings.Split(text, "\n") {
		ln = strings.TrimSpace(ln)
		if ln == "" || strings.HasPrefix(ln, "WARNING") || strings.HasPrefix(ln, "(warning") {
			continue // solver warnings precede the verdict
		}
		first = ln
		break
	}
	switch first {
	case "unsat", "sat", "unknown":
		return first, text, el
	}
	if cctx.Err() != nil {
		return "timeout", text, el
	}
	if strings.Contains(text, "timeout") {
		return "timeout", text, el
	}
	return "error", text, el
}

// solveOne races the solvers on one obligation file.
func solveOne(o *Obligation, file string, opts solveOpts) {
	if o.Cover && opts.timeoutS > 3 {
		opts.timeoutS = 3 // reachability covers are advisory unless they come back unsat
	}
	ctx, cancel := context.WithCancel(context.Background())
	defer cancel()
	type res struct {
		solver, verdict, out string
		el                   time.Duration
	}
	ch := make(chan res, len(solvers))
	for _, sp := range solvers {
		sp := sp
		go func() {
			v, out, el := runSolver(ctx, sp, file, opts.timeoutS)
			ch <- res{sp.name, v, out, el}
		}()
	}
	var all []res
	want := "unsat"
	if o.Cover {
		want = "sat"
	}
	unsatN := 0
	for i := 0; i < len(solvers); i++ {
		r := <-ch
		all = append(all, r)
		if !opts.all {
			if r.verdict == want {
				o.Result, o.Solver, o.Millis, o.Output = want, r.solver, r.el.Milliseconds(), ""
				return
			}
			if (r.verdict == "sat" || r.verdict == "unsat") && r.verdict != want {
				o.Result, o.Solver, o.Millis, o.Output = r.verdict, r.solver, r.el.Milliseconds(), trunc(r.out, 4000)
				return
			}
			continue
		}
		if r.verdict == want {
			unsatN++
		}
	}
	var outs []string
	bad := ""
	var ms int64
	var names []string
	for _, r := range all {
		outs = append(outs, fmt.Sprintf("[%s] %s (%d ms)\n%s", r.solver, r.verdict, r.el.Milliseconds(), trunc(r.out, 1500)))
		if (r.verdict == "sat" || r.verdict == "unsat") && r.verdict != want {
			bad = r.verdict
		}
		if r.verdict == want {
			names = append(names, r.solver)
			if ms == 0 || r.el.Milliseconds() < ms {
				ms = r.el.Milliseconds()
			}
		}
	}
	if opts.all && bad == "" && unsatN >= 2 {
		o.Result, o.Solver, o.Millis = want, strings.Join(names, "+"), ms
		return
	}
	if opts.all && bad == "" && unsatN == 1 {
		o.Result, o.Solver, o.Millis = want+"-single", strings.Join(names, "+"), ms
		o.Output = strings.Join(outs, "\n")
		return
	}
	nerr := 0
	for _, r := range all {
		if r.verdict == "error" {
			nerr++
		}
	}
	if bad != "" {
		o.Result = bad
	} else if nerr == len(all) {
		o.Result = "solver-error"
	} else {
		o.Result = "unknown"
	}
	o.Output = strings.Join(outs, "\n")
}

func trunc(s string, n int) string {
	if len(s) > n {
		return s[:n] + "\n...[truncated]"
	}
	return s
}

// solveAll writes and solves the obligations in parallel.
func solveAll(items []*oblItem, outDir string, opts solveOpts, par int) {
	os.MkdirAll(outDir, 0o755)
	for _, it := range items {
		it.x.prelude() // built once per function, single-threaded (it interns literals)
	}
	// render all queries single-threaded (Term.String caches, and the prelude interns literals)
	for _, it := range items {
		file := filepath.Join(outDir, sanitizeFile(it.o.Name)+".smt2")
		text := it.x.query(it.o, false)
		os.WriteFile(file, []byte(text), 0o644)
		it.o.SMTFile = file
		it.size = len(text)
	}
	var wg sync.WaitGroup
	sem := make(chan struct{}, par)
	for _, it := range items {
		it := it
		wg.Add(1)
		sem <- struct{}{}
		go func() {
			defer wg.Done()
			defer func() { <-sem }()
			solveOne(it.o, it.o.SMTFile, opts)
		}()
	}
	wg.Wait()
}

type oblItem struct {
	o    *Obligation
	x    *Exec
	size int
}

func sanitizeFile(s string) string {
	r := strings.NewReplacer("/", "_", "(", "", ")", "", "*", "", " ", "_", "#", "--", ":", "-", "$", "_", "@", "_at_")
	return r.Replace(s)
}
