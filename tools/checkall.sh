#!/bin/bash
# runs every suite's quick (or given tier) check on the current tree and prints the summary lines
cd /verif
tier=${1:-quick}
rc=0
for s in suites/*.suite; do id=$(basename $s .suite); ./check $id $tier > out/all-$id.log 2>&1; r=$?; tail -1 out/all-$id.log; grep -c "^VIOLATION" out/all-$id.log | grep -qv '^0$' && grep "^VIOLATION" out/all-$id.log | cut -c1-250; [ $r -ne 0 ] && rc=1; done
exit $rc
