#!/bin/bash
# usage: tools/mkseedprompt.sh <PROP> <round-tag>  — prepares a scratch worktree (contracts removed) and a prompt file for a seeding sub-agent
id=$1; tag=$2
W=/tmp/seed-$id-$tag
git -C /repo worktree add --detach $W HEAD >/dev/null 2>&1
(cd $W; fs=$(git ls-files 'internal/*/verif_contracts.go'); git update-index --skip-worktree $fs; rm -f $fs)
mkdir -p /tmp/seedout-$id-$tag
desc=""
for d in /verif/seeded/$(echo $id | tr A-Z a-z)-*; do desc="$desc [$(basename $d)]: $(grep -v '^#' $d/agent_meta.md | head -c 500 | tr '\n' ' ' | cut -c1-260) "; done
python3 /verif/tools/agent_prompt.py $id | sed "s#/tmp/seed-$id/OUT/#/tmp/seedout-$id-$tag/#g; s#/tmp/seed-$id#/tmp/seed-$id-$tag#g; s#copied only into OUT/#copied only into /tmp/seedout-$id-$tag/#" > /tmp/prompt-$id-$tag.txt
printf "\nAdditional constraints for this round: keep every existing function, method and signature exactly as it is (no added, removed or renamed functions, no changed parameter or result lists, no new struct fields); the regression must live purely in the behaviour of existing function bodies. Earlier rounds already produced the changes summarised below, so pick a DIFFERENT mechanism in a different function (and preferably a different file or a different clause of the property): %s\n" "$desc" >> /tmp/prompt-$id-$tag.txt
echo /tmp/prompt-$id-$tag.txt
