#!/usr/bin/env python3
"""Regenerates the as-built per-property table in DESIGN.md (between the asbuilt:begin/end markers) from tools/claims.json and the evidence files."""
import json, re, os
c = json.load(open('/verif/tools/claims.json'))
rows = ["| id | obligations (quick) | what the check proves | assumed / not covered |", "|---|---|---|---|"]
for x in sorted(c['checks'], key=lambda x: x['property_id']):
    pid = x['property_id']
    n = '-'
    try:
        ev = json.load(open(f'/verif/evidence/{pid}.json'))
        n = f"{ev['coverage']['discharged']}/{ev['coverage']['obligations']}"
    except Exception:
        pass
    rows.append(f"| {pid} | {n} | {x['text']} | {x['note']} |")
for pid, why in sorted(c['not_applicable'].items()):
    rows.append(f"| {pid} | not applicable | — | {why} |")
s = open('/verif/DESIGN.md').read()
s = re.sub(r'<!-- asbuilt:begin -->.*?<!-- asbuilt:end -->', '<!-- asbuilt:begin -->\n' + '\n'.join(rows) + '\n<!-- asbuilt:end -->', s, flags=re.S)
open('/verif/DESIGN.md', 'w').write(s)
print(len(rows) - 2, 'rows')
