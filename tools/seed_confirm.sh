#!/bin/bash
# usage: tools/seed_confirm.sh <name> <property> <src-OUT-dir> <package-dir-for-demo> [extra check ids...]
# Confirms a sub-agent's seeded change in a scratch worktree (compiles, suite passes, demo fails with / passes without),
# then runs the property's check against /repo with the patch applied and undoes it. Stores everything in /verif/seeded/<name>/.
set -u
if [ -n "$(git -C /repo status --short | grep -v '^??')" ]; then echo "refusing: /repo has uncommitted changes (they would be lost by the checkout that undoes the patch)"; exit 2; fi
name=$1; prop=$2; out=$3; pkg=$4; shift 4
dst=/verif/seeded/$name; mkdir -p $dst
cp $out/patch.diff $dst/patch.diff; cp $out/demo_test.go $dst/demo_test.go; cp $out/meta.md $dst/agent_meta.md 2>/dev/null
W=$(mktemp -d /tmp/confirm.XXXXXX)
git -C /repo worktree add --detach $W/repo HEAD >/dev/null 2>&1
cd $W/repo
res_apply=ok; git apply $dst/patch.diff || res_apply=FAIL
res_build=ok; go build ./... >/dev/null 2>&1 || res_build=FAIL
go test -count=1 ./... > $W/suite.log 2>&1; res_suite=$?
cp $dst/demo_test.go $pkg/zz_seed_demo_test.go
go test -count=1 -vet=off -run . ./$pkg > $W/demo_with.log 2>&1; res_with=$?
git apply -R $dst/patch.diff
go test -count=1 -vet=off -run . ./$pkg > $W/demo_without.log 2>&1; res_without=$?
cd /verif
git -C /repo worktree remove --force $W/repo >/dev/null 2>&1
# run the checks against /repo with the patch applied
git -C /repo apply $dst/patch.diff
declare -A rc; detected=""
for c in $prop "$@"; do
  ./check $c quick > $W/check-$c.log 2>&1; rc[$c]=$?
  grep VIOLATION $W/check-$c.log | sed 's/.*obligation=//; s/ result=.*//' > $dst/violations-$c.txt
  [ ${rc[$c]} -eq 1 ] && detected="$detected $c"
done
git -C /repo checkout -- . ; git -C /repo status --short | grep -v '^??' | head -3
# restore evidence of the unchanged tree for the checks we just ran
for c in $prop "$@"; do ./check $c quick >/dev/null 2>&1; done
python3 - "$name" "$prop" "$res_apply" "$res_build" "$res_suite" "$res_with" "$res_without" "$detected" "$pkg" <<'PY'
import json,sys,glob,os
name,prop,ap,bu,su,wi,wo,det,pkg=sys.argv[1:10]
d=f'/verif/seeded/{name}'
viol={os.path.basename(f)[11:-4]:[l.strip() for l in open(f) if l.strip()] for f in glob.glob(d+'/violations-*.txt')}
meta={"name":name,"breaks_property":prop,"demo_package_dir":pkg,
 "confirmed":{"patch_applies":ap,"builds":bu,"existing_suite_exit":int(su),"demo_exit_with_change":int(wi),"demo_exit_without_change":int(wo)},
 "confirmed_ok": ap=="ok" and bu=="ok" and su=="0" and wi!="0" and wo=="0",
 "checks_run":sorted(viol.keys()),"detected_by":det.split(),"failing_obligations":viol,
 "what_i_ran":"scratch worktree of /repo HEAD: git apply patch; go build ./...; go test -count=1 ./...; demo test copied into the package dir: go test (must fail); git apply -R; go test (must pass). Then: git -C /repo apply patch; ./check <id> quick for each check; git -C /repo checkout -- ."}
json.dump(meta,open(d+'/meta.json','w'),indent=1)
print(json.dumps({k:meta[k] for k in ("confirmed","confirmed_ok","detected_by")}))
for k,v in viol.items(): print(k, v[:6])
PY
rm -rf $W
