#!/opt/veriftools/pyvenv/bin/python
import json, jsonschema, glob, sys
jsonschema.validate(json.load(open('/verif/MANIFEST.json')), json.load(open('/root/.vp/MANIFEST.schema.json')))
sch = json.load(open('/root/.vp/EVIDENCE.schema.json'))
for f in sorted(glob.glob('/verif/evidence/*.json')):
    jsonschema.validate(json.load(open(f)), sch)
print('manifest and', len(glob.glob('/verif/evidence/*.json')), 'evidence files valid')
