#!/bin/bash
# applies each must-fail mutant (optionally filtered by substrings) to /repo, runs its check and reports whether a failing input was replayed
cd /verif
[ -n "$(git -C /repo status --short | grep -v '^??')" ] && { echo "/repo dirty"; exit 2; }
while IFS=$'\t' read -r patch prop expect; do
  if [ $# -gt 0 ]; then m=0; for s in "$@"; do case $patch in *$s*) m=1;; esac; done; [ $m = 1 ] || continue; fi
  git -C /repo apply /verif/selftest/mutants/$patch 2>/dev/null || { echo "$patch: does not apply"; continue; }
  GOVC_SCRATCH=/tmp/govc-survey ./check $prop quick > /tmp/govc-survey.log 2>&1
  n=$(grep -c "^VIOLATION" /tmp/govc-survey.log); r=$(grep -c "failing-input-replayed" /tmp/govc-survey.log)
  echo "$patch violations=$n replayed=$r $(grep 'failing-input-replayed' /tmp/govc-survey.log | head -1 | sed 's/.*call=//' | cut -c1-150)"
  git -C /repo checkout -- .
done < selftest/expect.tsv
rm -rf /tmp/govc-survey /tmp/govc-survey.log
