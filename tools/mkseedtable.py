#!/usr/bin/env python3
"""Regenerates the seeded-changes table in DESIGN.md (between the seeds:begin/end markers) from seeded/*/meta.json."""
import json, glob, re
rows = ["| seeded change | breaks | failing obligation(s) (first) | kind of detection |", "|---|---|---|---|"]
for d in sorted(glob.glob('/verif/seeded/*/')):
    m = json.load(open(d + 'meta.json'))
    obs = sorted({o for v in m['failing_obligations'].values() for o in v})
    sem = [o for o in obs if 'not-regenerable' not in o and 'no-call-site' not in o]
    kind = 'semantic clause' if sem else ('contract no longer applies' if obs else 'MISSED')
    first = (sem or obs or ['-'])[0]
    rows.append(f"| {m['name']} | {m['breaks_property']} | `{first}` | {kind} |")
s = open('/verif/DESIGN.md').read()
s = re.sub(r'<!-- seeds:begin -->.*?<!-- seeds:end -->', '<!-- seeds:begin -->\n' + '\n'.join(rows) + '\n<!-- seeds:end -->', s, flags=re.S)
n = len(rows) - 2
missed = sum(1 for r in rows if r.endswith('| MISSED |'))
summ = f"{n} changes, all confirmed; {n - missed} detected by the check of the property they break, {missed} missed:"
s = re.sub(r'<!-- seeds:summary -->.*?<!-- seeds:summary-end -->', '<!-- seeds:summary -->' + summ + '<!-- seeds:summary-end -->', s, flags=re.S)
open('/verif/DESIGN.md', 'w').write(s)
print(len(rows) - 2, 'rows')
