#!/bin/bash
# usage: tools/seed_recheck.sh [name-substr...]   re-runs the checks recorded in seeded/<name>/meta.json against /repo with the
# patch applied (the change itself was confirmed once by seed_confirm.sh) and updates detected_by / failing_obligations.
set -u
cd /verif
if [ -n "$(git -C /repo status --short | grep -v '^??')" ]; then echo "refusing: /repo has uncommitted changes"; exit 2; fi
for d in seeded/*/; do
  name=$(basename $d)
  if [ $# -gt 0 ]; then m=0; for s in "$@"; do case $name in *$s*) m=1;; esac; done; [ $m = 1 ] || continue; fi
  checks=$(jq -r '.checks_run[]' $d/meta.json)
  if ! git -C /repo apply /verif/$d/patch.diff 2>/dev/null; then echo "$name: patch no longer applies"; continue; fi
  det=""
  for c in $checks; do
    ./check $c quick > out/recheck-$name-$c.log 2>&1; rc=$?
    grep VIOLATION out/recheck-$name-$c.log | sed 's/.*obligation=//; s/ result=.*//' > $d/violations-$c.txt
    [ $rc -eq 1 ] && det="$det $c"
  done
  git -C /repo checkout -- .
  python3 - $d "$det" <<'PY'
import json,sys,glob,os
d,det=sys.argv[1],sys.argv[2]
m=json.load(open(d+'/meta.json'))
m['detected_by']=det.split()
m['failing_obligations']={os.path.basename(f)[11:-4]:[l.strip() for l in open(f) if l.strip()] for f in glob.glob(d+'/violations-*.txt')}
json.dump(m,open(d+'/meta.json','w'),indent=1)
print(m['name'],'detected_by',m['detected_by'],{k:len(v) for k,v in m['failing_obligations'].items()})
PY
done
echo "note: evidence files now describe the patched tree for the checks run; refresh with ./check all"
