import json,sys
pid=sys.argv[1]
p=[json.loads(l) for l in open('/verif/properties.jsonl') if json.loads(l)['id']==pid][0]
print(f"""You are testing how robust a Go project's behaviour is. The project is hookaido (a single-binary webhook gateway: ingress with HMAC auth, durable SQLite/Postgres/memory lease-based queue with retries and DLQ, pull/push delivery, admin API, MCP server). You have your own scratch git worktree of it at /tmp/seed-{pid} (work ONLY inside that directory; never touch /repo or /verif, never read anything under /verif). Build/test with the plain `go` command from inside the worktree (for example `go build ./... && go test -count=1 ./...`); there is no network.

The project is supposed to satisfy this property:

  {p['title']}

  {p['statement']}

  (It must hold for: {p['quantifier']['text']})

Your job: produce ONE realistic code change (the kind of regression a well-meaning contributor could introduce: a refactor, an optimisation, a reordered check, a relaxed condition, an off-by-one, a forgotten bookkeeping update, two sites that each look fine alone ...) that BREAKS this property while the project still compiles and its existing test suite (`go test -count=1 ./...`) still passes. Prefer a change that needs something specific to manifest - a particular interleaving, a crash or fault at a particular point, a multi-step sequence of operations, an unusual input, or two cooperating sites - rather than one that ordinary use would expose at once. Do not touch test files of the project, do not add build tags, keep the change small (a few lines to a few dozen lines), and make it plausible. Read the relevant code first to find a good spot; the in-memory queue backend (internal/queue/memory.go), internal/ingress, internal/app, internal/dispatcher, internal/pullapi, internal/mcp, internal/admin and internal/config are all fair game, whichever implements the property.

Deliverables (write them into /tmp/seed-{pid}/OUT/):
  1. patch.diff  - `git diff HEAD` of your change to the project source (non-test files only), taken from the worktree root. It must apply with `git apply` to a clean checkout.
  2. demo_test.go - a NEW Go test file (state in a comment at its top which package directory it belongs in, e.g. internal/queue) containing one or more tests that demonstrate the violation: they must FAIL with your change applied and PASS on the unmodified code. It may use internal (package-level) access by declaring the same package name.
  3. meta.md - which property it breaks, how the change works, and what is needed for the violation to manifest (the specific input / sequence / timing), plus the exact commands you ran and their outcome: (a) full `go test -count=1 ./...` with the change applied and without your demo test: must pass; (b) the demo test with the change: must fail; (c) the demo test without the change (git stash or reverse-apply): must pass.

Before finishing, leave the worktree with your change APPLIED and the demo test file copied only into OUT/ (remove it from the package directory again). Your final message should summarise the change in 5-10 lines.""")
