#!/usr/bin/env python3
"""Regenerates /verif/MANIFEST.json from tools/claims.json (single source of truth for what is claimed)."""
import json, os, subprocess
here = os.path.dirname(os.path.abspath(__file__))
root = os.path.dirname(here)
claims = json.load(open(os.path.join(here, "claims.json")))
props = [json.loads(l) for l in open(os.path.join(root, "properties.jsonl"))]
ids = [p["id"] for p in props]
try:
    commits = subprocess.check_output(["git", "-C", "/repo", "log", "--format=%H %s"], text=True).splitlines()
    hooks = [c.split()[0] for c in commits if c.split(" ", 1)[1].startswith("verif:")]
except Exception:
    hooks = []
m = {
    "version": 1,
    "setup_cmd": "./setup.sh",
    "hooks": {
        "guard": "verif",
        "enable": "go build tag `verif` (go/packages BuildFlags -tags=verif); the guarded files internal/*/verif_contracts.go contain a build constraint, a package clause and //@ contract comments only",
        "baseline_off_cmd": "cd /repo && go test -vet=off -count=1 -timeout 25m ./...",
        "source_commits": hooks,
        "add_only": True,
    },
    "engines": [{
        "name": "govc",
        "path": "/verif/engine",
        "serves_properties": [c["property_id"] for c in claims["checks"]],
        "kind_free_text": "home-grown deductive verifier for Go: contracts (//@ requires/ensures/invariant/modifies/monitor) in guarded comment files, weakest-precondition style VC generation over go/ssa (NaiveForm) of /repo's working tree on every run, one SMT query per named obligation, discharged by z3 4.8.12 / z3 5.1.0 / cvc5 1.0",
    }],
    "checks": [],
    "notes": claims.get("notes", ""),
    "not_applicable": [],
}
claimed = set()
for c in claims["checks"]:
    pid = c["property_id"]
    claimed.add(pid)
    m["checks"].append({
        "property_id": pid,
        "quick_cmd": f"./check {pid} quick",
        "thorough_cmd": f"./check {pid} thorough",
        "evidence_file": f"/verif/evidence/{pid}.json",
        "replay_cmd_template": "./check replay {path}",
        "engine": "govc",
        "level_claimed": {"category": "proof", "text": c["text"], "design_ref": c.get("design_ref", f"DESIGN.md §4 {pid}")},
        "level_note": c["note"],
        "technique": c.get("technique", "contract-based deductive verification: SMT-discharged verification conditions generated from the real Go source (go/ssa) against //@ contracts"),
    })
for pid in ids:
    if pid not in claimed:
        m["not_applicable"].append({"property_id": pid, "reason": claims["not_applicable"].get(pid, "no deciding obligation built yet with this technique (work in progress); not claimed")})
json.dump(m, open(os.path.join(root, "MANIFEST.json"), "w"), indent=1)
print("MANIFEST.json:", len(m["checks"]), "checks,", len(m["not_applicable"]), "not applicable")
