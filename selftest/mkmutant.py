#!/usr/bin/env python3
"""mkmutant.py NAME PROP EXPECT FILE OLD NEW  — records a one-edit mutant of /repo as selftest/mutants/NAME.patch."""
import sys, subprocess, os
name, prop, expect, file, old, new = sys.argv[1:7]
p = os.path.join('/repo', file)
s = open(p).read()
if s.count(old) < 1:
    sys.exit(f"{name}: pattern not found in {file}")
open(p, 'w').write(s.replace(old, new, 1))
diff = subprocess.check_output(['git', '-C', '/repo', 'diff', '--', file], text=True)
subprocess.check_call(['git', '-C', '/repo', 'checkout', '--', file])
open(f'/verif/selftest/mutants/{name}.patch', 'w').write(diff)
lines = [l for l in open('/verif/selftest/expect.tsv').read().splitlines() if not l.startswith(name + '.patch\t')] if os.path.exists('/verif/selftest/expect.tsv') else []
lines.append(f"{name}.patch\t{prop}\t{expect}")
open('/verif/selftest/expect.tsv', 'w').write("\n".join(lines) + "\n")
print("recorded", name)
