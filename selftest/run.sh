#!/bin/bash
# Must-fail corpus: applies each mutant patch to a scratch worktree of /repo (outside /repo and /verif),
# runs the property's check against it and expects exit 1 with the named obligation among the violations.
# usage: selftest/run.sh [name-substring...]
cd "$(dirname "$0")/.."
W=$(mktemp -d /tmp/hk-selftest.XXXXXX)
trap 'git -C /repo worktree remove --force "$W/repo" >/dev/null 2>&1; rm -rf "$W"' EXIT
git -C /repo worktree add --detach "$W/repo" HEAD >/dev/null 2>&1 || { echo "cannot create worktree"; exit 2; }
pass=0; fail=0
while IFS=$'\t' read -r patch prop expect; do
  [ -z "$patch" ] && continue
  case "$patch" in \#*) continue;; esac
  if [ $# -gt 0 ]; then m=0; for a in "$@"; do case "$patch" in *"$a"*) m=1;; esac; done; [ $m = 1 ] || continue; fi
  git -C "$W/repo" checkout -q -- . 
  if ! git -C "$W/repo" apply "/verif/selftest/mutants/$patch" 2>/dev/null; then echo "SELFTEST-BROKEN $patch does not apply"; fail=$((fail+1)); continue; fi
  out=$(GOVC_REPO="$W/repo" GOVC_SCRATCH="$W/scratch" bin/govc check "$prop" quick 2>&1); rc=$?
  if [ $rc -eq 1 ] && echo "$out" | grep -q "VIOLATION.*$expect"; then
    echo "ok    $patch  ($prop: $expect)"; pass=$((pass+1))
  else
    echo "MISS  $patch  ($prop: expected $expect, rc=$rc)"; echo "$out" | tail -3 | sed 's/^/      /'; fail=$((fail+1))
  fi
done < selftest/expect.tsv
echo "selftest: $pass caught, $fail missed"
[ $fail -eq 0 ]
