package app

// Demonstration for the C10 finding "outbound/internal routes are reachable from the ingress listener".
//   echo '{"Replace":{"/repo/internal/app/zz_finding_test.go":"/verif/findings/c10_outbound_reachable_test.go"}}' > /tmp/ov.json
//   go test -overlay /tmp/ov.json -vet=off -count=1 -run TestFindingOutboundReachable ./internal/app
// Fails before the "fix:" commit, passes after it.

import (
	"net/http/httptest"
	"testing"

	"github.com/nuetzliches/hookaido/internal/config"
)

func TestFindingOutboundReachable(t *testing.T) {
	src := `
pull_api { auth token "raw:t" }
outbound /jobs/deploy {
  deliver "https://example.test/hook" {}
}
internal /jobs/internal {
  pull { path /pull/internal }
}
`
	cfg, err := config.Parse([]byte(src))
	if err != nil {
		t.Fatal(err)
	}
	compiled, res := config.Compile(cfg)
	if !res.OK {
		t.Fatalf("compile: %v", res.Errors)
	}
	s := newRuntimeState(compiled)
	for _, p := range []string{"/jobs/deploy", "/jobs/internal"} {
		r := httptest.NewRequest("POST", "http://hookaido.test"+p, nil)
		if route, ok := s.resolveIngress(r, p); ok {
			t.Errorf("ingress request to %s resolved to non-inbound route %q", p, route)
		}
		if m := s.allowedMethodsFor(r, p); len(m) != 0 {
			t.Errorf("ingress advertises methods %v for non-inbound route %s", m, p)
		}
	}
}
