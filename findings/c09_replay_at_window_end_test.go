package ingress

// Demonstration for the C09 finding "a captured request is accepted a second time at the end of its window".
//   echo '{"Replace":{"/repo/internal/ingress/zz_finding_test.go":"/verif/findings/c09_replay_at_window_end_test.go"}}' > /tmp/ov.json
//   go test -overlay /tmp/ov.json -vet=off -count=1 -run TestFindingReplay ./internal/ingress
// Fails before the "fix:" commit, passes after it.

import (
	"crypto/hmac"
	"crypto/sha256"
	"encoding/hex"
	"fmt"
	"net/http/httptest"
	"strconv"
	"testing"
	"time"
)


func TestFindingReplayAtWindowEnd(t *testing.T) {
	secret := []byte("s3cret")
	a := NewHMACAuth([][]byte{secret})
	ts := int64(1_700_000_000)
	now := time.Unix(ts, 0)
	a.Now = func() time.Time { return now }
	body := []byte("payload")
	mk := func() error {
		r := httptest.NewRequest("POST", "http://h/hook", nil)
		sum := sha256.Sum256(body)
		msg := fmt.Sprintf("%s\n%s\n%s\n%s", strconv.FormatInt(ts, 10), "POST", "/hook", hex.EncodeToString(sum[:]))
		m := hmac.New(sha256.New, secret)
		m.Write([]byte(msg))
		r.Header.Set("X-Signature", hex.EncodeToString(m.Sum(nil)))
		r.Header.Set("X-Timestamp", strconv.FormatInt(ts, 10))
		r.Header.Set("X-Nonce", "n-1")
		return a.Verify(r, "/hook", body)
	}
	if err := mk(); err != nil {
		t.Fatalf("first delivery rejected: %v", err)
	}
	// the identical captured request, replayed at the last instant at which its timestamp still passes the tolerance check
	now = time.Unix(ts, 0).Add(a.Tolerance)
	if err := mk(); err == nil {
		t.Fatalf("replay accepted at now == ts + tolerance (timestamp still within tolerance)")
	}
}

func TestFindingReplayBetweenClockReads(t *testing.T) {
	secret := []byte("s3cret")
	a := NewHMACAuth([][]byte{secret})
	ts := int64(1_700_000_000)
	base := time.Unix(ts, 0)
	var reads int
	var instants []time.Time
	a.Now = func() time.Time {
		if reads < len(instants) {
			reads++
			return instants[reads-1]
		}
		return instants[len(instants)-1]
	}
	body := []byte("payload")
	mk := func() error {
		r := httptest.NewRequest("POST", "http://h/hook", nil)
		sum := sha256.Sum256(body)
		msg := fmt.Sprintf("%s\n%s\n%s\n%s", strconv.FormatInt(ts, 10), "POST", "/hook", hex.EncodeToString(sum[:]))
		m := hmac.New(sha256.New, secret)
		m.Write([]byte(msg))
		r.Header.Set("X-Signature", hex.EncodeToString(m.Sum(nil)))
		r.Header.Set("X-Timestamp", strconv.FormatInt(ts, 10))
		r.Header.Set("X-Nonce", "n-2")
		return a.Verify(r, "/hook", body)
	}
	instants, reads = []time.Time{base}, 0
	if err := mk(); err != nil {
		t.Fatalf("first delivery rejected: %v", err)
	}
	// replay: the tolerance check reads the clock 1ns before the window closes, the nonce cache reads it 2ns later
	instants, reads = []time.Time{base.Add(a.Tolerance - time.Nanosecond), base.Add(a.Tolerance + time.Nanosecond)}, 0
	if err := mk(); err == nil {
		t.Fatalf("replay accepted: tolerance passed on the first clock read, nonce entry expired on the second")
	}
}
