package app

// Demonstration for the C09 finding "a reload that widens the HMAC tolerance re-admits a captured request".
//   echo '{"Replace":{"/repo/internal/app/zz_finding3_test.go":"/verif/findings/c09_reload_widens_tolerance_test.go"}}' > /tmp/ov.json
//   go test -overlay /tmp/ov.json -vet=off -count=1 -run TestFindingReloadWidensTolerance ./internal/app
// Fails before the "fix:" commit, passes after it.

import (
	"crypto/hmac"
	"crypto/sha256"
	"encoding/hex"
	"fmt"
	"net/http/httptest"
	"strconv"
	"testing"
	"time"

	"github.com/nuetzliches/hookaido/internal/config"
)

func TestFindingReloadWidensTolerance(t *testing.T) {
	mk := func(tol string) config.Compiled {
		src := `
pull_api { auth token "raw:t" }
/hook {
  auth hmac {
    secret "raw:s3cret"
    tolerance ` + tol + `
  }
  pull { path /pull/hook }
}
`
		cfg, err := config.Parse([]byte(src))
		if err != nil {
			t.Fatal(err)
		}
		compiled, res := config.Compile(cfg)
		if !res.OK {
			t.Fatalf("compile: %v", res.Errors)
		}
		return compiled
	}
	narrow, wide := mk("1m"), mk("10m")
	s := newRuntimeState(narrow)
	if err := s.loadAuth(narrow); err != nil {
		t.Fatal(err)
	}
	clock := time.Now().UTC().Truncate(time.Second)
	setClock := func() { s.hmacAuthFor("/hook").Now = func() time.Time { return clock } }
	ts := clock.Unix()
	body := []byte("payload")
	verify := func(nonce string, ts int64) error {
		r := httptest.NewRequest("POST", "http://h/hook", nil)
		sum := sha256.Sum256(body)
		msg := fmt.Sprintf("%s\n%s\n%s\n%s", strconv.FormatInt(ts, 10), "POST", "/hook", hex.EncodeToString(sum[:]))
		m := hmac.New(sha256.New, []byte("s3cret"))
		m.Write([]byte(msg))
		r.Header.Set("X-Signature", hex.EncodeToString(m.Sum(nil)))
		r.Header.Set("X-Timestamp", strconv.FormatInt(ts, 10))
		r.Header.Set("X-Nonce", nonce)
		return s.hmacAuthFor("/hook").Verify(r, "/hook", body)
	}
	setClock()
	if err := verify("n-1", ts); err != nil {
		t.Fatalf("first delivery rejected: %v", err)
	}
	// case 1: the nonce is still remembered when the reload widens the window
	clock = clock.Add(30 * time.Second)
	if err := s.loadAuth(wide); err != nil {
		t.Fatal(err)
	}
	setClock()
	clock = clock.Add(4*time.Minute + 30*time.Second) // ts + 5m: inside the 10m window, past the 1m one
	if err := verify("n-1", ts); err == nil {
		t.Errorf("captured request accepted again after the tolerance was widened (nonce still cached at reload)")
	}
}

func TestFindingReloadWidensToleranceAfterCleanup(t *testing.T) {
	mk := func(tol string) config.Compiled {
		src := `
pull_api { auth token "raw:t" }
/hook {
  auth hmac {
    secret "raw:s3cret"
    tolerance ` + tol + `
  }
  pull { path /pull/hook }
}
`
		cfg, err := config.Parse([]byte(src))
		if err != nil {
			t.Fatal(err)
		}
		compiled, res := config.Compile(cfg)
		if !res.OK {
			t.Fatalf("compile: %v", res.Errors)
		}
		return compiled
	}
	narrow, wide := mk("1m"), mk("10m")
	s := newRuntimeState(narrow)
	if err := s.loadAuth(narrow); err != nil {
		t.Fatal(err)
	}
	clock := time.Now().UTC().Truncate(time.Second)
	setClock := func() { s.hmacAuthFor("/hook").Now = func() time.Time { return clock } }
	ts := clock.Unix()
	body := []byte("payload")
	verify := func(nonce string, ts int64) error {
		r := httptest.NewRequest("POST", "http://h/hook", nil)
		sum := sha256.Sum256(body)
		msg := fmt.Sprintf("%s\n%s\n%s\n%s", strconv.FormatInt(ts, 10), "POST", "/hook", hex.EncodeToString(sum[:]))
		m := hmac.New(sha256.New, []byte("s3cret"))
		m.Write([]byte(msg))
		r.Header.Set("X-Signature", hex.EncodeToString(m.Sum(nil)))
		r.Header.Set("X-Timestamp", strconv.FormatInt(ts, 10))
		r.Header.Set("X-Nonce", nonce)
		return s.hmacAuthFor("/hook").Verify(r, "/hook", body)
	}
	setClock()
	if err := verify("n-1", ts); err != nil {
		t.Fatalf("first delivery rejected: %v", err)
	}
	// case 2: the old window has elapsed and another request has swept the nonce out of the cache
	clock = clock.Add(2 * time.Minute)
	if err := verify("n-2", clock.Unix()); err != nil {
		t.Fatalf("second sender rejected: %v", err)
	}
	if err := s.loadAuth(wide); err != nil {
		t.Fatal(err)
	}
	setClock()
	clock = clock.Add(3 * time.Minute) // ts + 5m
	if err := verify("n-1", ts); err == nil {
		t.Errorf("captured request accepted again after the tolerance was widened (nonce already swept at reload)")
	}
}
