// Demonstration for the C12/C02 defect of the Postgres backend (package directory: internal/queue).
//
// History: queue_limits max_depth 1, drop_policy drop_oldest, one queued message "old"; an enqueue of a message whose
// id already exists (or whose INSERT fails for any other reason) is refused with ErrEnvelopeExists — but before the
// fix the eviction DELETE had already run as its own autocommit statement, so "old" is gone although nothing was
// stored ("evicts nothing unless the new message is really stored", "every refusal leaves the queue exactly as it was").
//
// No Postgres server exists in the sandbox, so the real PostgresStore.Enqueue is driven through database/sql with a
// scripted driver that records which statements became durable (autocommit, or inside a transaction that committed).
// Fails on the tree before the fix: commit, passes after it.
package queue

import (
	"context"
	"database/sql"
	"database/sql/driver"
	"errors"
	"io"
	"strings"
	"sync"
	"testing"
	"time"

	"github.com/jackc/pgx/v5/pgconn"
)

type scriptedPG struct {
	mu      sync.Mutex
	inTx    bool
	pending []string
	durable []string
	depth   int64
}

func (d *scriptedPG) Connect(context.Context) (driver.Conn, error) { return &scriptedConn{d: d}, nil }
func (d *scriptedPG) Driver() driver.Driver                        { return scriptedDrv{} }

type scriptedDrv struct{}

func (scriptedDrv) Open(string) (driver.Conn, error) { return nil, errors.New("use OpenDB") }

type scriptedConn struct{ d *scriptedPG }

func (c *scriptedConn) Prepare(string) (driver.Stmt, error) { return nil, errors.New("not used") }
func (c *scriptedConn) Close() error                        { return nil }
func (c *scriptedConn) Begin() (driver.Tx, error) {
	return c.BeginTx(context.Background(), driver.TxOptions{})
}
func (c *scriptedConn) BeginTx(context.Context, driver.TxOptions) (driver.Tx, error) {
	c.d.mu.Lock()
	defer c.d.mu.Unlock()
	c.d.inTx, c.d.pending = true, nil
	return &scriptedTx{d: c.d}, nil
}

type scriptedTx struct{ d *scriptedPG }

func (t *scriptedTx) Commit() error {
	t.d.mu.Lock()
	defer t.d.mu.Unlock()
	t.d.durable = append(t.d.durable, t.d.pending...)
	t.d.inTx, t.d.pending = false, nil
	return nil
}
func (t *scriptedTx) Rollback() error {
	t.d.mu.Lock()
	defer t.d.mu.Unlock()
	t.d.inTx, t.d.pending = false, nil
	return nil
}

type affected int64

func (a affected) LastInsertId() (int64, error) { return 0, nil }
func (a affected) RowsAffected() (int64, error) { return int64(a), nil }

func (c *scriptedConn) ExecContext(_ context.Context, q string, _ []driver.NamedValue) (driver.Result, error) {
	c.d.mu.Lock()
	defer c.d.mu.Unlock()
	kind := strings.Fields(q)[0]
	if kind == "INSERT" {
		// the id already exists: unique violation, nothing inserted
		return nil, &pgconn.PgError{Code: "23505", Message: "duplicate key value violates unique constraint"}
	}
	if c.d.inTx {
		c.d.pending = append(c.d.pending, kind)
	} else {
		c.d.durable = append(c.d.durable, kind)
	}
	return affected(1), nil
}

type oneRow struct {
	v    int64
	done bool
}

func (r *oneRow) Columns() []string { return []string{"count"} }
func (r *oneRow) Close() error      { return nil }
func (r *oneRow) Next(dest []driver.Value) error {
	if r.done {
		return io.EOF
	}
	r.done = true
	dest[0] = r.v
	return nil
}

func (c *scriptedConn) QueryContext(_ context.Context, q string, _ []driver.NamedValue) (driver.Rows, error) {
	return &oneRow{v: c.d.depth}, nil
}

func TestFindingC12PostgresRefusedEnqueueEvictsNothing(t *testing.T) {
	d := &scriptedPG{depth: 1} // the queue is full: one active message, max_depth 1
	s := &PostgresStore{
		db:         sql.OpenDB(d),
		nowFn:      time.Now,
		maxDepth:   1,
		dropPolicy: "drop_oldest",
		metrics:    newPostgresRuntimeMetrics(),
	}
	err := s.Enqueue(Envelope{ID: "evt_dup", Route: "/r", Target: "pull", Payload: []byte("x")})
	if !errors.Is(err, ErrEnvelopeExists) {
		t.Fatalf("expected the duplicate id to be refused with ErrEnvelopeExists, got %v", err)
	}
	d.mu.Lock()
	defer d.mu.Unlock()
	for _, k := range d.durable {
		if k == "DELETE" {
			t.Fatalf("the enqueue was refused (%v) but the eviction DELETE became durable: statements made durable = %v", err, d.durable)
		}
	}
}

func TestFindingC12PostgresAdmittedEnqueueStillEvictsAndStoresTogether(t *testing.T) {
	// control: with an INSERT that succeeds, eviction and insert are made durable (together)
	d := &scriptedPGOK{scriptedPG{depth: 1}}
	s := &PostgresStore{db: sql.OpenDB(d), nowFn: time.Now, maxDepth: 1, dropPolicy: "drop_oldest", metrics: newPostgresRuntimeMetrics()}
	if err := s.Enqueue(Envelope{ID: "evt_new", Route: "/r", Target: "pull", Payload: []byte("x")}); err != nil {
		t.Fatalf("enqueue: %v", err)
	}
	d.mu.Lock()
	defer d.mu.Unlock()
	if got := strings.Join(d.durable, ","); got != "DELETE,INSERT" {
		t.Fatalf("durable statements = %q, want DELETE,INSERT", got)
	}
}

type scriptedPGOK struct{ scriptedPG }

func (d *scriptedPGOK) Connect(context.Context) (driver.Conn, error) {
	return &scriptedConnOK{scriptedConn{d: &d.scriptedPG}}, nil
}

type scriptedConnOK struct{ scriptedConn }

func (c *scriptedConnOK) ExecContext(_ context.Context, q string, _ []driver.NamedValue) (driver.Result, error) {
	c.d.mu.Lock()
	defer c.d.mu.Unlock()
	kind := strings.Fields(q)[0]
	if c.d.inTx {
		c.d.pending = append(c.d.pending, kind)
	} else {
		c.d.durable = append(c.d.durable, kind)
	}
	return affected(1), nil
}
