// Demonstration for a C12 defect of the memory backend (package directory: internal/queue).
//
// History: max_depth 2, drop_policy drop_oldest, no delivered retention.
//  1. publish id "a"; a worker dequeues and acks it (the message is deleted; its id stays on the store's internal
//     order list until the next compaction);
//  2. publish id "b" (older), then id "a" again (newer) — a re-published idempotency key;
//  3. publish id "c": the queue is full, drop_oldest must evict the OLDEST queued message, "b".
//
// Before the fix the eviction walked the order list [a, b, a], found the stale first entry "a" resolving to the
// re-published (newest) message and evicted that one; "b" stayed.
// Found by a seeding sub-agent reading the code (round 13), not by a check: the contract said "the victim is the
// first queued entry of the order list", which the code satisfied; nothing said the order list has no stale duplicates.
package queue

import (
	"testing"
	"time"
)

func TestFindingC12DropOldestEvictsTheOldestQueuedAfterIDReuse(t *testing.T) {
	now := time.Date(2026, 1, 1, 12, 0, 0, 0, time.UTC)
	clock := now
	s := NewMemoryStore(
		WithNowFunc(func() time.Time { return clock }),
		WithQueueLimits(2, "drop_oldest"),
	)
	mustEnq := func(id string) {
		t.Helper()
		clock = clock.Add(time.Second)
		if err := s.Enqueue(Envelope{ID: id, Route: "/r", Target: "pull", Payload: []byte(id)}); err != nil {
			t.Fatalf("enqueue %s: %v", id, err)
		}
	}
	mustEnq("a")
	resp, err := s.Dequeue(DequeueRequest{Route: "/r", Target: "pull", Batch: 1, LeaseTTL: time.Minute, Now: clock})
	if err != nil || len(resp.Items) != 1 {
		t.Fatalf("dequeue: %v %d", err, len(resp.Items))
	}
	if err := s.Ack(resp.Items[0].LeaseID); err != nil {
		t.Fatalf("ack: %v", err)
	}
	mustEnq("b") // older
	mustEnq("a") // newer: the same id published again after its first copy was delivered
	mustEnq("c") // queue full: must evict the oldest queued message, "b"

	got, err := s.LookupMessages(MessageLookupRequest{IDs: []string{"a", "b", "c"}})
	if err != nil {
		t.Fatalf("lookup: %v", err)
	}
	present := map[string]bool{}
	for _, it := range got.Items {
		present[it.ID] = true
	}
	if present["b"] || !present["a"] || !present["c"] {
		t.Fatalf("drop_oldest must evict the oldest queued message (b) and keep the newer ones (a, c); present after the eviction: %v", present)
	}
}
