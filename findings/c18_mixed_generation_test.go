package app

// Demonstration for the two recorded C18 findings (not repaired, see DESIGN.md §5):
//  (a) reloadConfig swaps the authenticators (loadAuth) and the route table (updateAll) in two separate
//      critical sections, so between them requests see the new authenticators with the old routes;
//  (b) the ingress handler reads the runtime state through separate accessor calls (separate RLock sections), so a
//      reload that lands between two of them serves one request under a mixture of the old and the new configuration.
//   echo '{"Replace":{"/repo/internal/app/zz_finding3_test.go":"/verif/findings/c18_mixed_generation_test.go"}}' > /tmp/ov.json
//   go test -overlay /tmp/ov.json -vet=off -count=1 -run TestFindingMixedGeneration ./internal/app
// These tests FAIL on the current tree (the findings are real); they are not part of any check.

import (
	"net/http"
	"net/http/httptest"
	"strings"
	"testing"

	"github.com/nuetzliches/hookaido/internal/config"
	"github.com/nuetzliches/hookaido/internal/ingress"
	"github.com/nuetzliches/hookaido/internal/queue"
)

func compileForTest(t *testing.T, src string) config.Compiled {
	t.Helper()
	cfg, err := config.Parse([]byte(src))
	if err != nil {
		t.Fatal(err)
	}
	compiled, res := config.Compile(cfg)
	if !res.OK {
		t.Fatalf("compile: %v", res.Errors)
	}
	return compiled
}

const cfgOld = `
pull_api { auth token "raw:t" }
/hook {
  auth hmac "raw:s3cret"
  pull { path /pull/hook }
}
`

// new configuration: /hook no longer demands HMAC, but only accepts PUT
const cfgNew = `
pull_api { auth token "raw:t" }
/hook {
  match { method PUT }
  pull { path /pull/hook }
}
`

func TestFindingMixedGenerationBetweenTheTwoWriteSections(t *testing.T) {
	oldC, newC := compileForTest(t, cfgOld), compileForTest(t, cfgNew)
	s := newRuntimeState(oldC)
	if err := s.loadAuth(oldC); err != nil {
		t.Fatal(err)
	}
	// reloadConfig does exactly this, in this order:
	if err := s.loadAuth(newC); err != nil {
		t.Fatal(err)
	}
	// <- a request arriving here
	r := httptest.NewRequest("POST", "http://h/hook", nil)
	route, ok := s.resolveIngress(r, "/hook")
	auth := s.hmacAuthFor("/hook")
	s.updateAll(newC)
	if ok && route == "/hook" && auth == nil {
		t.Fatalf("between loadAuth and updateAll an unsigned POST /hook is routed by the OLD table (which demands HMAC) but authenticated by the NEW (none): served under a mixture")
	}
}

func TestFindingMixedGenerationWithinOneRequest(t *testing.T) {
	oldC, newC := compileForTest(t, cfgOld), compileForTest(t, cfgNew)
	s := newRuntimeState(oldC)
	if err := s.loadAuth(oldC); err != nil {
		t.Fatal(err)
	}
	store := queue.NewMemoryStore()
	srv := ingress.NewServer(store)
	srv.ResolveRoute = func(r *http.Request, p string) (string, bool) {
		route, ok := s.resolveIngress(r, p)
		// a complete, successful reload lands right after route resolution of this request
		if err := s.loadAuth(newC); err != nil {
			t.Fatal(err)
		}
		s.updateAll(newC)
		return route, ok
	}
	srv.HMACAuthFor = s.hmacAuthFor
	srv.BasicAuthFor = s.basicAuthFor
	srv.ForwardAuthFor = s.forwardAuthFor
	srv.LimitsFor = s.limitsFor
	srv.TargetsFor = s.targetsFor
	w := httptest.NewRecorder()
	srv.ServeHTTP(w, httptest.NewRequest("POST", "http://h/hook", strings.NewReader("x")))
	// old config: unsigned POST /hook -> 401. new config: POST /hook does not match (PUT only) -> 404/405.
	if w.Code == http.StatusAccepted {
		t.Fatalf("an unsigned POST /hook was accepted (202): routed under the old configuration, authenticated under the new one")
	}
}
