package queue

// Demonstration for the C02/C12 finding "drop_oldest evicts, then the enqueue is refused".
// Run (from /repo, nothing is written to the repository):
//   echo '{"Replace":{"/repo/internal/queue/zz_finding_test.go":"/verif/findings/c02_c12_evict_then_fail_test.go"}}' > /tmp/ov.json
//   go test -overlay /tmp/ov.json -vet=off -count=1 -run TestFindingEvictThenFail ./internal/queue
// Fails on the tree before the "fix:" commit, passes after it.

import (
	"errors"
	"testing"
)

func TestFindingEvictThenFail(t *testing.T) {
	s := NewMemoryStore(WithQueueLimits(1, "drop_oldest"))
	if err := s.Enqueue(Envelope{ID: "dead1", Route: "/r", Target: "t", State: StateDead}); err != nil {
		t.Fatal(err)
	}
	if err := s.Enqueue(Envelope{ID: "a", Route: "/r", Target: "t"}); err != nil {
		t.Fatal(err)
	}
	// queue is full (one active message). Enqueue a message whose id already exists (as a dead message).
	err := s.Enqueue(Envelope{ID: "dead1", Route: "/r", Target: "t"})
	if !errors.Is(err, ErrEnvelopeExists) {
		t.Fatalf("expected ErrEnvelopeExists, got %v", err)
	}
	got, _ := s.LookupMessages(MessageLookupRequest{IDs: []string{"a"}})
	if len(got.Items) != 1 || got.Items[0].State != StateQueued {
		t.Fatalf("refused enqueue evicted live message a: lookup=%+v", got.Items)
	}
}

func TestFindingBatchEvictThenFail(t *testing.T) {
	s := NewMemoryStore(WithQueueLimits(2, "drop_oldest"))
	_ = s.Enqueue(Envelope{ID: "a", Route: "/r", Target: "t"})
	_ = s.Enqueue(Envelope{ID: "b", Route: "/r", Target: "t"})
	// lease b so that only one queued victim exists; a batch of two needs two victims
	if _, err := s.Dequeue(DequeueRequest{Route: "/r", Batch: 1}); err != nil {
		t.Fatal(err)
	}
	n, err := s.EnqueueBatch([]Envelope{{ID: "x", Route: "/r", Target: "t"}, {ID: "y", Route: "/r", Target: "t"}})
	if n != 0 || !errors.Is(err, ErrQueueFull) {
		t.Fatalf("expected (0, ErrQueueFull), got (%d, %v)", n, err)
	}
	got, _ := s.LookupMessages(MessageLookupRequest{IDs: []string{"a", "b"}})
	if len(got.Items) != 2 {
		t.Fatalf("refused batch evicted a live message: lookup=%+v", got.Items)
	}
}
