package app

// Demonstration for the C09 finding "a configuration reload forgets the honoured nonces".
//   echo '{"Replace":{"/repo/internal/app/zz_finding2_test.go":"/verif/findings/c09_reload_forgets_nonces_test.go"}}' > /tmp/ov.json
//   go test -overlay /tmp/ov.json -vet=off -count=1 -run TestFindingReloadForgetsNonces ./internal/app
// Fails before the "fix:" commit, passes after it.

import (
	"crypto/hmac"
	"crypto/sha256"
	"encoding/hex"
	"fmt"
	"net/http/httptest"
	"strconv"
	"testing"
	"time"

	"github.com/nuetzliches/hookaido/internal/config"
)

func TestFindingReloadForgetsNonces(t *testing.T) {
	src := `
pull_api { auth token "raw:t" }
/hook {
  auth hmac "raw:s3cret"
  pull { path /pull/hook }
}
`
	cfg, err := config.Parse([]byte(src))
	if err != nil {
		t.Fatal(err)
	}
	compiled, res := config.Compile(cfg)
	if !res.OK {
		t.Fatalf("compile: %v", res.Errors)
	}
	s := newRuntimeState(compiled)
	if err := s.loadAuth(compiled); err != nil {
		t.Fatal(err)
	}
	ts := time.Now().Unix()
	body := []byte("payload")
	verify := func() error {
		r := httptest.NewRequest("POST", "http://h/hook", nil)
		sum := sha256.Sum256(body)
		msg := fmt.Sprintf("%s\n%s\n%s\n%s", strconv.FormatInt(ts, 10), "POST", "/hook", hex.EncodeToString(sum[:]))
		m := hmac.New(sha256.New, []byte("s3cret"))
		m.Write([]byte(msg))
		r.Header.Set("X-Signature", hex.EncodeToString(m.Sum(nil)))
		r.Header.Set("X-Timestamp", strconv.FormatInt(ts, 10))
		r.Header.Set("X-Nonce", "n-1")
		return s.hmacAuthFor("/hook").Verify(r, "/hook", body)
	}
	if err := verify(); err != nil {
		t.Fatalf("first delivery rejected: %v", err)
	}
	if err := verify(); err == nil {
		t.Fatalf("immediate replay accepted")
	}
	// configuration reload (same configuration)
	if err := s.loadAuth(compiled); err != nil {
		t.Fatal(err)
	}
	if err := verify(); err == nil {
		t.Fatalf("captured request accepted again after a configuration reload")
	}
}
