# sourced by setup.sh and check: offline Go environment for building/running govc
export PATH=/root/go/pkg/mod/golang.org/toolchain@v0.0.1-go1.25.7.linux-amd64/bin:$PATH
export GOTOOLCHAIN=local GOFLAGS=-mod=mod GOPROXY=off GOSUMDB=off
export CGO_ENABLED=0
