#!/bin/bash
# Builds /verif/bin/govc offline from /verif/engine against the cached x/tools v0.29.0 and checks the solvers answer.
set -e
cd "$(dirname "$0")"
. ./env.sh
mkdir -p bin out evidence
(cd engine && go build -o ../bin/govc .)
for s in "z3 -smt2 -in" "z3-new -smt2 -in" "cvc5 --lang=smt2"; do
  r=$(printf '(set-logic ALL)\n(declare-fun x () Int)\n(assert (and (> x 0) (< x 0)))\n(check-sat)\n' | $s | head -1)
  if [ "$r" != "unsat" ]; then echo "solver canary failed: $s -> $r" >&2; exit 1; fi
done
# warm the go build cache for the packages under contract (tag verif)
(cd /repo && go build -tags verif ./internal/... >/dev/null 2>&1 || true)
echo "setup ok"
